//go:build race

package sched

import "runtime"

// RaceOn reports whether the binary was built with the race detector.
const RaceOn = true

func raceDisable() { runtime.RaceDisable() }
func raceEnable()  { runtime.RaceEnable() }
