package sched

import "time"

// The virtual clock as the code under test sees it. In builds instrumented by cmd/autoyield every
// time.Now / Since / Until / Sleep / After / AfterFunc of flamego's sources is routed here, so that
// a timeout or a watchdog in the framework reads simulated time: one driver step is 1-4 ticks,
// sleeping tasks make the clock jump, and a timer callback is one more task whose turn comes when
// its virtual time has, at whatever point of the other tasks' execution the schedule puts it.
// On the pinned tree only Logger() reads the clock (to print a duration); the seam exists so that
// a change which introduces a timer is simulated rather than left to the wall clock, under which
// nothing a three-second timer guards would ever be reached in a run that takes a millisecond.

var (
	vnow      int64
	tickNanos int64 = 1e6
	pending   []*Task
	armed     int
)

const maxTimers = 64 // per run; a timer that re-arms itself for ever must not make the run endless

var epoch = time.Unix(1_700_000_000, 0)

//go:norace
func setVNow(v int64) { vnow = v }

//go:norace
func vNow() int64 { return vnow }

//go:norace
func getTick() int64 { return tickNanos }

// SetTick sets how much virtual time one tick of the scheduler's clock stands for (engines draw
// it per run, so that any constant in the code under test is crossed in some runs).
//
//go:norace
func SetTick(d time.Duration) {
	if d <= 0 {
		d = time.Millisecond
	}
	tickNanos = int64(d)
}

//go:norace
func addPending(t *Task) bool {
	if armed >= maxTimers {
		return false
	}
	armed++
	pending = append(pending, t)
	return true
}

//go:norace
func takePending() []*Task {
	p := pending
	pending = nil
	return p
}

//go:norace
func resetTimers() { pending, armed = nil, 0 }

var timerDone chan struct{}

//go:norace
func setTimerDone(c chan struct{}) { timerDone = c }

//go:norace
func getTimerDone() chan struct{} { return timerDone }

func joinTimer() {
	if c := getTimerDone(); c != nil {
		c <- struct{}{}
	}
}

//go:norace
func noteFired(l *Local) { l.TimersFired++ }

func toTicks(d time.Duration) int64 {
	k := int64(d) / getTick()
	if k < 1 {
		k = 1
	}
	return k
}

// Now is the virtual time.Now.
func Now() time.Time { return epoch.Add(time.Duration(vNow() * getTick())) }

// Sleep is the virtual time.Sleep: the calling task parks and stays out of scheduling until the
// virtual clock has advanced by d. Outside a scheduler run it returns at once.
func Sleep(d time.Duration) {
	if d <= 0 {
		return
	}
	yield(98, toTicks(d))
}

// AfterFunc is the virtual time.AfterFunc. The returned timer is a real one that never fires by
// itself: it carries Stop() for the code under test, and whether the callback is still wanted is
// asked of it when the virtual time has come. The callback runs as a task of its own, started by
// the arming goroutine (the go statement is the happens-before edge time.AfterFunc guarantees
// between arming and callback) and released by the driver like any other task.
func AfterFunc(d time.Duration, f func()) *time.Timer {
	t := current()
	if t == nil || (!isMulti() && getG(t) != getg()) {
		if t == nil && getSolo() != nil {
			// a request served alone: virtual time does not pass, the timer never becomes due
			return time.AfterFunc(1000*time.Hour, func() {})
		}
		return time.AfterFunc(d, f) // not ours (no run in progress, or a goroutine the code under test started)
	}
	rt := time.AfterFunc(1000*time.Hour, func() {})
	nt := newTimerTask(rt, vNow()+toTicks(d), taskLocal(t))
	if !addPending(nt) {
		return rt
	}
	go func() {
		raceDisable()
		setGoid(nt)
		cmd := <-nt.wake
		register(nt)
		raceEnable()
		if cmd&CmdAbort == 0 {
			func() {
				defer func() {
					if p := recover(); p != nil {
						if _, ok := p.(Abort); !ok {
							panic(p)
						}
					}
				}()
				f()
			}()
		}
		raceDisable()
		nt.back <- msg{site: -1}
		raceEnable()
		joinTimer() // visible join edge, as for the other tasks: the driver reads what the callback wrote after the run
	}()
	return rt
}

// newTimerTask builds the task record of a timer callback. It is written here, on the arming
// goroutine, and read by the driver, whose synchronisation the race detector does not see: the
// writes stay out of its sight as well.
//
//go:norace
func newTimerTask(rt *time.Timer, at int64, owner *Local) *Task {
	return &Task{ID: -1, wake: make(chan int), back: make(chan msg), timer: true, rt: rt, at: at, owner: owner}
}

// After is the virtual time.After.
func After(d time.Duration) <-chan time.Time {
	c := make(chan time.Time, 1)
	AfterFunc(d, func() { c <- Now() })
	return c
}
