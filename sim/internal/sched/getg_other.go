//go:build !amd64

package sched

// getg returns an identity of the calling goroutine; without the assembly stub it is parsed
// from runtime.Stack (slow, but correct).
func getg() uintptr { return uintptr(goid()) }
