package sched

// getg returns an identity of the calling goroutine (see getg_amd64.s).
func getg() uintptr
