#include "textflag.h"

// func getg() uintptr
// The address of the running goroutine's descriptor: a cheap identity that is stable while the
// goroutine lives (the same trick the goid libraries use).
TEXT ·getg(SB),NOSPLIT,$0-8
	MOVQ (TLS), AX
	MOVQ AX, ret+0(FP)
	RET
