// Package sched is the serialising scheduler of the simulator: real
// goroutines ("tasks") run real flamego code, but exactly one of them is
// released at any instant and it runs until its next yield point. Which task
// runs next is drawn from the tape, so one seed is one interleaving.
//
// The hand-off between driver and task is wrapped in runtime.RaceDisable /
// RaceEnable, so the race detector does not see the scheduler's channels as
// happens-before edges: tasks stay mutually concurrent in its eyes (apart from
// the code under test's own synchronisation) although they are executed
// strictly one after another.
package sched

import (
	"runtime"
	"strings"
	"time"

	"verif/sim/internal/tape"
)

// Framework hook sites (simYield(n) in /repo, build tag verif).
const (
	S1 = 1 // router.ServeHTTP entry
	S2 = 2 // router.ServeHTTP after lookup/Match
	S3 = 3 // Flame.createContext after the handler slice is built
	S4 = 4 // context.run loop top, before the Done() poll
	S5 = 5 // context.run after Invoke returned
	S6 = 6 // baseTree.matchNextSegment entry
	// Seam sites (simulator-owned code called by a task) start here.
	SeamBase = 16
)

// Commands delivered to a task when it is woken.
const (
	CmdCancel = 1 << iota // cancel the context of the request being served
	CmdAbort              // the run is over budget: unwind
)

// Abort is the panic value used to unwind a task whose run was aborted.
type Abort struct{}

// Local is the request-local execution state of the task (or of the solo
// caller) that is currently serving one request.
type Local struct {
	Idx         int    // number of yields so far
	CIdx        int    // number of chain-relevant yields (all but the routing hooks S1,S2,S3,S6)
	CancelAt    int    // plan: cancel at the first yield with CIdx >= CancelAt; <0: none
	CancelledAt int    // CIdx at which a cancel was delivered; <0: none
	CancelSite  int    // yield site at which it was delivered
	Cancel      func() // cancels the request context
	SoloCap     int    // solo mode: abort after this many yields (0: no cap)
	Sites       []uint8
	KeepSites   bool
	Ref         interface{} // owner (the engine's request record)
	TimersFired int         // virtual timers armed during this request whose callback ran
}

// Init resets l for a new request.
func (l *Local) Init(cancelAt int, cancel func()) {
	l.Idx, l.CIdx, l.CancelAt, l.CancelledAt, l.Cancel = 0, 0, cancelAt, -1, cancel
	l.TimersFired = 0
	l.Sites = l.Sites[:0]
}

//go:norace
func (l *Local) step(site int) {
	l.Idx++
	switch site {
	case S1, S2, S3, S6:
	default:
		l.CIdx++
	}
	if l.KeepSites {
		l.Sites = append(l.Sites, uint8(site))
	}
}

func (l *Local) deliverCancel(site int) {
	if l.CancelledAt >= 0 || l.Cancel == nil {
		return
	}
	l.CancelledAt = l.CIdx
	l.CancelSite = site
	l.Cancel()
}

type msg struct {
	site  int
	sleep int64 // virtual ticks the task asks to sleep (time.Sleep of the code under test in instrumented builds)
}

// Task is one simulated caller goroutine.
type Task struct {
	ID       int
	back     chan msg
	wake     chan int
	state    int // 0 parked at a yield, 1 blocked outside the scheduler, 2 done; driver-owned
	local    *Local
	aborted  bool
	goid     int64
	g        uintptr // identity of the task's goroutine (getg)
	lastSite int     // driver-owned
	// timer tasks (virtual time.AfterFunc callbacks of the code under test)
	timer bool
	at    int64       // virtual time at which the callback is due
	rt    *time.Timer // the real, never-firing timer handed to the code under test: carries Stop()
	owner *Local      // request during which the timer was armed
}

// SetLocal installs the request-local state used by subsequent yields of t.
//
//go:norace
func (t *Task) SetLocal(l *Local) { t.local = l }

// Task identity: on the fast path exactly one task runs and the driver's
// pointer is right. Once some task was found blocked outside the scheduler two
// goroutines may briefly run at once, and identity falls back to a goroutine-id
// lookup.
var (
	curTask *Task
	multi   bool
	active  bool
	solo    *Local
	reg     [128]struct {
		goid int64
		t    *Task
	}
	nreg int
)

func goid() int64 {
	var buf [64]byte
	n := runtime.Stack(buf[:], false)
	var id int64
	for _, c := range buf[len("goroutine "):n] {
		if c < '0' || c > '9' {
			break
		}
		id = id*10 + int64(c-'0')
	}
	return id
}

//go:norace
func register(t *Task) {
	if nreg < len(reg) {
		reg[nreg].goid, reg[nreg].t = goid(), t
		nreg++
	}
}

//go:norace
func current() *Task {
	if !active {
		return nil
	}
	if !multi {
		return curTask
	}
	g := goid()
	for i := 0; i < nreg; i++ {
		if reg[i].goid == g {
			return reg[i].t
		}
	}
	return nil
}

//go:norace
func setCurrent(t *Task) { curTask = t }

//go:norace
func setMulti(b bool) { multi = b }

//go:norace
func isMulti() bool { return multi }

//go:norace
func setActive(b bool) { active = b; nreg = 0 }

//go:norace
func getSolo() *Local { return solo }

// SetSolo installs the request-local state used by yields outside any
// scheduler run (solo twin executions). Pass nil to remove it.
//
//go:norace
func SetSolo(l *Local) {
	solo = l
	soloGoid = 0
	if l != nil {
		soloGoid = getg()
	}
}

var soloGoid uintptr

//go:norace
func getSoloGoid() uintptr { return soloGoid }

//go:norace
func taskLocal(t *Task) *Local { return t.local }

//go:norace
func taskAborted(t *Task) bool { return t.aborted }

//go:norace
func setAborted(t *Task) { t.aborted = true }

var evSeq int64

// Stamp returns the next value of a global event sequence. Tasks are
// serialised, so the sequence is a total order of everything that happens in
// a run (used to stamp invocation/return events of recorded histories).
//
//go:norace
func Stamp() int64 { evSeq++; return evSeq }

// ResetStamp restarts the event sequence (called between runs).
//
//go:norace
func ResetStamp() { evSeq = 0 }

// CurrentLocal returns the request-local state of the running task or solo
// caller (nil if none).
func CurrentLocal() *Local {
	if t := current(); t != nil {
		return taskLocal(t)
	}
	return getSolo()
}

// Yield is the one yield point: every hook site and every seam calls it.
func Yield(site int) { yield(site, 0) }

func yield(site int, sleep int64) {
	t := current()
	if t == nil {
		l := getSolo()
		if l == nil {
			return
		}
		if getSoloGoid() != getg() {
			return // a goroutine the code under test started itself: not ours to count or to stop
		}
		l.step(site)
		if l.SoloCap > 0 && l.Idx > l.SoloCap {
			panic(Abort{})
		}
		if l.CancelAt >= 0 && l.CIdx >= l.CancelAt {
			l.deliverCancel(site)
		}
		return
	}
	if !isMulti() && getG(t) != getg() {
		// A goroutine started by the code under test (a background worker of a middleware, say)
		// reached a yield site. It is not a task: it runs free, like anything else the simulator
		// does not own, and a task waiting for it is handled as blocked outside.
		return
	}
	l := taskLocal(t)
	if l != nil {
		l.step(site)
	}
	raceDisable()
	t.back <- msg{site, sleep}
	cmd := <-t.wake
	raceEnable()
	if cmd&CmdAbort != 0 {
		setAborted(t)
	}
	if taskAborted(t) {
		panic(Abort{})
	}
	if l != nil {
		if cmd&CmdCancel != 0 || (l.CancelAt >= 0 && l.CIdx >= l.CancelAt) {
			l.deliverCancel(site)
		}
	}
}

//go:norace
func setGoid(t *Task) { t.goid = goid(); t.g = getg() }

//go:norace
func getG(t *Task) uintptr { return t.g }

//go:norace
func getGoid(t *Task) int64 { return t.goid }

// goroutineState returns the scheduler state the Go runtime reports for goroutine id
// ("running", "runnable", "semacquire", "sync.Mutex.Lock", "chan receive", ...), or "" if
// it no longer exists. Used only after a hand-over timed out, to tell a task that is merely
// slow (a starved machine) from one that is blocked on something the simulator does not own.
func goroutineState(id int64) string {
	buf := make([]byte, 1<<20)
	n := runtime.Stack(buf, true)
	want := "goroutine " + itoa64(id) + " ["
	s := string(buf[:n])
	i := strings.Index(s, want)
	if i < 0 {
		return ""
	}
	s = s[i+len(want):]
	if j := strings.IndexAny(s, ",]"); j >= 0 {
		s = s[:j]
	}
	return s
}

func itoa64(v int64) string {
	if v == 0 {
		return "0"
	}
	var b [20]byte
	p := len(b)
	for v > 0 {
		p--
		b[p] = byte('0' + v%10)
		v /= 10
	}
	return string(b[p:])
}

// Policies.
const (
	PolRunToCompletion = iota
	PolUniform
	PolSticky
	PolPCT
	PolRoundRobin // lock step: after every step the next parked task (by id, cyclically) runs
)

// Config configures one scheduler run.
type Config struct {
	Policy         int
	SwitchPermille int // PolSticky: probability of leaving the current task at a step
	PCTDepth       int // PolPCT: number of priority change points
	PCTHorizon     int // PolPCT: change points are drawn in [1,PCTHorizon]
	MaxSteps       int
	// A stalled task ("slow node"): with probability StallPermille one task of the run stops at
	// its k-th own yield (k drawn in [1,StallHorizon]) and is left out of scheduling until one or
	// two whole requests of other tasks have started and completed meanwhile (two yields at
	// StallSite, the request boundary, by the same task); it then runs next. Needs three tasks or more.
	StallPermille  int
	StallHorizon   int
	StallSite      int
	StallCountSite int // when >0, only the victim's yields at this site count towards k (e.g. the expression-level yields of an instrumented build)
	Sched          *tape.Stream
	Time           *tape.Stream
	// WakeCmd runs on the driver goroutine just before task is released; it may
	// return CmdCancel. OnYield runs on the driver goroutine after the task has
	// parked again at site (or finished: site == -1).
	WakeCmd func(task int, now int64) int
	OnYield func(task, site int, now int64)
	// Sleep runs on the driver goroutine after OnYield when task has parked at site; a positive
	// return value d keeps the task out of scheduling until the virtual clock has reached now+d
	// (arrival offsets and think times of an open workload). When every parked task is asleep
	// the clock jumps to the earliest wake-up time: sleeping costs no steps and no real time.
	Sleep   func(task, site int, now int64) int64
	KeepLog bool
}

// Step is one entry of the schedule log.
type Step struct {
	Task int16
	Site int16
}

// Result describes one scheduler run.
type Result struct {
	Steps            int
	Ticks            int64
	Switches         int
	Log              []Step
	SchedHash        uint64 // hash of the (task, site) sequence
	SwitchHash       uint64 // hash of the task-switch sequence (task left at site -> task entered)
	SwitchPairs      map[[2]int16]int
	SiteHits         map[int]int
	BlockedHandovers int
	BlockedStates    map[string]int // runtime state of the goroutines that were classed blocked outside the scheduler
	Deadlock         bool
	Capped           bool
	Stalls           int   // stall faults that fired (the victim reached its stall point while others were still running)
	TimersArmed      int   // virtual timers (time.AfterFunc of the code under test) adopted as tasks
	TimersFired      int   // of which the callback ran when its virtual time had come
	TimersStopped    int   // of which had been stopped by the code under test before that
	Sleeps           int   // times a task was put to sleep on the virtual clock
	ClockJumps       int   // times the virtual clock jumped because every parked task was asleep
	SleptTicks       int64 // virtual ticks skipped by those jumps
	StallThaws       int   // of which ended because the awaited progress of other tasks happened
}

const (
	tDetect = 100 * time.Millisecond
	tDrain  = 5 * time.Millisecond
)

func hmix(h uint64, v uint64) uint64 {
	h ^= v + 0x9e3779b97f4a7c15 + (h << 6) + (h >> 2)
	return h * 0x100000001b3
}

// Run executes the bodies as tasks under the scheduler and returns when all of
// them have finished (or a deadlock was declared).
func Run(cfg Config, bodies []func(t *Task)) *Result {
	res := &Result{SwitchPairs: map[[2]int16]int{}, SiteHits: map[int]int{}, BlockedStates: map[string]int{}}
	n := len(bodies)
	n0 := n // tasks beyond n0 are timer callbacks adopted during the run
	tasks := make([]*Task, n)
	done := make(chan struct{}, n)
	setActive(true)
	setMulti(false)
	resetTimers()
	setVNow(0)
	tdone := make(chan struct{}, maxTimers)
	setTimerDone(tdone)
	for i := range bodies {
		t := &Task{ID: i, wake: make(chan int), back: make(chan msg)}
		tasks[i] = t
		go func(t *Task, body func(*Task)) {
			raceDisable()
			setGoid(t)
			<-t.wake
			register(t)
			raceEnable()
			func() {
				defer func() {
					if p := recover(); p != nil {
						if _, ok := p.(Abort); !ok {
							panic(p)
						}
					}
				}()
				body(t)
			}()
			raceDisable()
			t.back <- msg{site: -1}
			raceEnable()
			done <- struct{}{} // visible join edge: the driver may read task-local data afterwards
		}(t, bodies[i])
	}

	// PCT priorities and change points are drawn up front.
	prio := make([]int, n)
	var change []int
	if cfg.Policy == PolPCT {
		perm := make([]int, n)
		for i := range perm {
			perm[i] = i
		}
		for i := n - 1; i > 0; i-- {
			j := cfg.Sched.Intn(i + 1)
			perm[i], perm[j] = perm[j], perm[i]
		}
		for i, p := range perm {
			prio[p] = n - i + 8 // task 0 highest when all draws are 0
		}
		h := cfg.PCTHorizon
		if h < 2 {
			h = 2
		}
		for d := 0; d < cfg.PCTDepth; d++ {
			change = append(change, 1+cfg.Sched.Intn(h))
		}
	}
	lowPrio := 0
	stallTask, stallAt, stallNeed := -1, 0, 0
	if cfg.StallPermille > 0 && n >= 3 && cfg.Sched.Chance(cfg.StallPermille) {
		h := cfg.StallHorizon
		if h < 2 {
			h = 2
		}
		if cfg.Sched.Intn(2) == 0 && h > 40 {
			h = 40 // half of the stalls come early: the victim stops inside the set-up of its first request, when every other task is about to start one as well
		}
		stallTask, stallAt, stallNeed = cfg.Sched.Intn(n), 1+cfg.Sched.Intn(h), 1+cfg.Sched.Intn(2)
	}
	stalled, stallSeen, stallSteps, forceNext, ownSteps := false, 0, 0, -1, 0
	stallBoundaries := make([]int, n)

	// The timer is created before the driver hides its synchronisation from the race detector:
	// time.NewTimer registers a runtime metric under a runtime lock on first use.
	timer := time.NewTimer(time.Hour)
	raceDisable()
	live := n
	last := -1
	var now int64
	sleepUntil := make([]int64, n, n+maxTimers)
	accept := func(t *Task, m msg) bool {
		res.Steps++
		res.SiteHits[m.site]++
		if cfg.KeepLog {
			res.Log = append(res.Log, Step{int16(t.ID), int16(m.site)})
		}
		res.SchedHash = hmix(res.SchedHash, uint64(t.ID)<<16|uint64(uint16(m.site)))
		t.lastSite = m.site
		if m.site == -1 {
			t.state = 2
			live--
		} else {
			t.state = 0
		}
		if stallTask >= 0 {
			if t.ID == stallTask && !stalled && (cfg.StallCountSite <= 0 || m.site == cfg.StallCountSite) {
				ownSteps++
				if ownSteps == stallAt && m.site != -1 && live > 1 {
					stalled, stallSeen, stallSteps = true, 0, 0
					for i := range stallBoundaries {
						stallBoundaries[i] = 0
					}
					res.Stalls++
				}
			} else if stalled {
				stallSteps++
				if m.site == cfg.StallSite || m.site == -1 {
					// the second boundary a task passes during the stall means that one whole
					// request of it started and completed while the victim stood still
					stallBoundaries[t.ID]++
					if stallBoundaries[t.ID] >= 2 {
						stallSeen++
					}
				}
				if stallSeen >= stallNeed || stallSteps > 50000 {
					if stallSeen >= stallNeed {
						res.StallThaws++
					}
					stalled, forceNext = false, stallTask
				}
			}
		}
		if cfg.OnYield != nil && t.ID < n0 {
			cfg.OnYield(t.ID, m.site, now)
		}
		if cfg.Sleep != nil && m.site != -1 && t.ID < n0 {
			if d := cfg.Sleep(t.ID, m.site, now); d > 0 {
				sleepUntil[t.ID] = now + d
				res.Sleeps++
			}
		}
		if m.sleep > 0 && m.site != -1 {
			sleepUntil[t.ID] = now + m.sleep
			res.Sleeps++
		}
		// timers the step has armed become tasks that sleep until they are due
		for _, nt := range takePending() {
			nt.ID = len(tasks)
			tasks = append(tasks, nt)
			pr := 0
			if cfg.Policy == PolPCT {
				pr = 1 + cfg.Sched.Intn(len(tasks)+8)
			}
			prio = append(prio, pr)
			sleepUntil = append(sleepUntil, nt.at)
			stallBoundaries = append(stallBoundaries, 0)
			live++
			res.TimersArmed++
		}
		return true
	}
	recv := func(t *Task, wait time.Duration) bool {
		if !timer.Stop() {
			select {
			case <-timer.C:
			default:
			}
		}
		timer.Reset(wait)
		select {
		case m := <-t.back:
			return accept(t, m)
		case <-timer.C:
			if wait == tDetect && t.state != 1 {
				// Slow or stuck? A goroutine the runtime still reports as running or runnable is
				// only slow (the machine is starved): keep waiting, in slices, for up to ten
				// seconds. Anything else is blocked on something outside the simulator.
				st := ""
				for slice := 0; slice < 100; slice++ {
					st = goroutineState(getGoid(t))
					if st != "running" && st != "runnable" && st != "syscall" && !strings.HasPrefix(st, "GC") {
						break // ("syscall": a file-system call of the static engine; "GC ...": held up by the collector)
					}
					timer.Reset(tDetect)
					select {
					case m := <-t.back:
						return accept(t, m)
					case <-timer.C:
					}
				}
				res.BlockedStates[st]++
			}
			if t.state != 1 {
				res.BlockedHandovers++
			}
			t.state = 1
			setMulti(true)
			if cfg.KeepLog {
				res.Log = append(res.Log, Step{int16(t.ID), -2})
			}
			return false
		}
	}
	idle := 0
	abort := false
	cand := make([]int, 0, n)
	for live > 0 {
		cand = cand[:0]
		// Candidate order: the task that ran last first (a zero draw keeps
		// running it), then the others by id.
		if last >= 0 && tasks[last].state == 0 && !(stalled && last == stallTask) && sleepUntil[last] <= now {
			cand = append(cand, last)
		}
		for _, t := range tasks {
			if t.state == 0 && t.ID != last && !(stalled && t.ID == stallTask) && sleepUntil[t.ID] <= now {
				cand = append(cand, t.ID)
			}
		}
		if len(cand) == 0 {
			// Nobody is awake. If somebody sleeps, the clock jumps to the earliest wake-up.
			wakeAt := int64(-1)
			for _, t := range tasks {
				if t.state == 0 && sleepUntil[t.ID] > now && !(stalled && t.ID == stallTask) && (wakeAt < 0 || sleepUntil[t.ID] < wakeAt) {
					wakeAt = sleepUntil[t.ID]
				}
			}
			if wakeAt >= 0 {
				res.ClockJumps++
				res.SleptTicks += wakeAt - now
				now = wakeAt
				continue
			}
		}
		if stalled && len(cand) == 0 {
			stalled = false // nobody else can run: the stall is over
			if tasks[stallTask].state == 0 {
				cand = append(cand, stallTask)
			}
		}
		onlyBlocked := false
		if len(cand) == 0 {
			onlyBlocked = true
			for _, t := range tasks {
				if t.state == 1 {
					cand = append(cand, t.ID)
				}
			}
		}
		k := 0
		if !onlyBlocked && len(cand) > 1 {
			switch cfg.Policy {
			case PolUniform:
				k = cfg.Sched.Intn(len(cand))
			case PolSticky:
				if cand[0] != last {
					k = cfg.Sched.Intn(len(cand))
				} else if cfg.Sched.Chance(cfg.SwitchPermille) {
					k = 1 + cfg.Sched.Intn(len(cand)-1)
				}
			case PolRoundRobin:
				k = -1
				for j, id := range cand {
					if id > last && (k < 0 || id < cand[k]) {
						k = j
					}
				}
				if k < 0 {
					k = 0
					for j, id := range cand {
						if id < cand[k] {
							k = j
						}
					}
				}
			case PolPCT:
				for _, c := range change {
					if c == res.Steps && last >= 0 {
						lowPrio--
						prio[last] = lowPrio
					}
				}
				best := 0
				for j, id := range cand {
					if prio[id] > prio[cand[best]] {
						best = j
					}
				}
				k = best
			}
		} else if onlyBlocked && len(cand) > 1 {
			k = idle % len(cand)
		}
		if forceNext >= 0 && !onlyBlocked {
			for j, id := range cand {
				if id == forceNext {
					k = j
				}
			}
			forceNext = -1
		}
		t := tasks[cand[k]]
		if t.state == 0 {
			if last >= 0 && last != t.ID {
				res.Switches++
				from := tasks[last]
				res.SwitchHash = hmix(res.SwitchHash, uint64(from.ID)<<32|uint64(uint16(from.lastSite))<<8|uint64(t.ID))
				if from.state == 0 {
					res.SwitchPairs[[2]int16{int16(from.lastSite), int16(t.lastSite)}]++
				}
			}
			cmd := 0
			if abort {
				cmd = CmdAbort
			} else if cfg.WakeCmd != nil && t.ID < n0 {
				cmd = cfg.WakeCmd(t.ID, now)
			}
			if t.timer && t.rt != nil {
				// first release of a timer callback: is it still wanted?
				if !t.rt.Stop() || abort {
					cmd = CmdAbort
					res.TimersStopped++
				} else {
					res.TimersFired++
					if t.owner != nil {
						noteFired(t.owner)
					}
				}
				t.rt = nil
			}
			setVNow(now)
			setCurrent(t)
			t.wake <- cmd
		}
		progressed := recv(t, tDetect)
		if cfg.Time != nil {
			now += 1 + int64(cfg.Time.Intn(4))
		} else {
			now++
		}
		last = t.ID
		if progressed {
			idle = 0
			// Let every task that was blocked on a foreign lock reach its next
			// yield before anything else is released.
			// One grace period for the whole set (whichever of them the step just made has
			// released needs real time to get to its next yield), then polls without waiting,
			// repeated while any of them moved: with dozens of tasks queued on one foreign
			// lock, a grace period per task and step would take minutes per run.
			for graced := false; ; {
				moved := false
				for _, b := range tasks {
					if b.state != 1 {
						continue
					}
					if !graced {
						graced = true
						if recv(b, tDrain) {
							moved = true
						}
						continue
					}
					select {
					case m := <-b.back:
						accept(b, m)
						moved = true
					default:
					}
				}
				if !moved {
					break
				}
			}
		} else {
			idle++
			// A deadlock is only declared after every unfinished task has been silent for
			// five seconds of wall clock: a starved machine can stall a runnable task for
			// hundreds of milliseconds.
			if onlyBlocked && idle > 50 {
				res.Deadlock = true
				break
			}
		}
		if cfg.MaxSteps > 0 && res.Steps > cfg.MaxSteps && !abort {
			abort = true
			res.Capped = true
		}
	}
	res.Ticks = now
	setCurrent(nil)
	setActive(false)
	raceEnable()
	if !res.Deadlock {
		for range bodies {
			<-done
		}
		for _, t := range tasks[n0:] {
			if t.state == 2 {
				<-tdone
			}
		}
	}
	return res
}
