//go:build !race

package sched

// RaceOn reports whether the binary was built with the race detector.
const RaceOn = false

func raceDisable() {}
func raceEnable()  {}
