// Package tape is the single source of every choice a simulated run makes.
//
// One master seed selects a run seed; a run seed selects one splitmix64 stream
// per named purpose ("gen", "sched", "time", "fault", ...). A stream in
// generation mode draws from its PRNG and records what it handed out; a stream
// in replay mode hands out a recorded list (reading past the end yields 0).
// The convention everywhere is that 0 is the simplest choice, so that a
// shrinker may truncate, delete or zero draws and still get a valid run.
package tape

import "sort"

// Mix is splitmix64's output function applied to x+golden; it is used both as
// the PRNG step and to derive independent seeds.
func Mix(x uint64) uint64 {
	x += 0x9e3779b97f4a7c15
	z := x
	z = (z ^ (z >> 30)) * 0xbf58476d1ce4e5b9
	z = (z ^ (z >> 27)) * 0x94d049bb133111eb
	return z ^ (z >> 31)
}

// RunSeed derives the seed of run i from the master seed.
func RunSeed(master uint64, i uint64) uint64 { return Mix(Mix(master) ^ Mix(i*0x632be59bd9b4e019+1)) }

func hashName(s string) uint64 {
	h := uint64(14695981039346656037)
	for i := 0; i < len(s); i++ {
		h ^= uint64(s[i])
		h *= 1099511628211
	}
	return h
}

// Span is a bracketed group of draws [From,To) of one stream, recorded so the
// shrinker can delete a whole request, action, route, ...
type Span struct {
	From, To int
	Kind     string
}

// Stream is one sequence of choices.
type Stream struct {
	name   string
	replay bool
	state  uint64
	in     []uint32 // replay input
	out    []uint32 // values actually handed out (canonical record)
	spans  []Span
	stack  []int
}

func (s *Stream) next() uint32 {
	if s.replay {
		i := len(s.out)
		if i < len(s.in) {
			return s.in[i]
		}
		return 0
	}
	s.state += 0x9e3779b97f4a7c15
	z := s.state
	z = (z ^ (z >> 30)) * 0xbf58476d1ce4e5b9
	z = (z ^ (z >> 27)) * 0x94d049bb133111eb
	return uint32((z ^ (z >> 31)) >> 32)
}

// Intn returns a value in [0,n). n<=1 yields 0 without consuming a draw.
func (s *Stream) Intn(n int) int {
	if n <= 1 {
		return 0
	}
	v := s.next() % uint32(n)
	s.out = append(s.out, v)
	return int(v)
}

// Chance is true with probability permille/1000; a zero draw is always false.
func (s *Stream) Chance(permille int) bool {
	if permille <= 0 {
		return false
	}
	v := s.Intn(1000)
	return v != 0 && v <= permille
}

// Weighted picks an index with the given relative weights; a zero draw picks
// the first index with non-zero weight, which callers make the simplest one.
func (s *Stream) Weighted(w ...int) int {
	sum := 0
	for _, x := range w {
		sum += x
	}
	if sum <= 0 {
		return 0
	}
	v := s.Intn(sum)
	for i, x := range w {
		if v < x {
			return i
		}
		v -= x
	}
	return len(w) - 1
}

// Range returns a value in [lo,hi].
func (s *Stream) Range(lo, hi int) int {
	if hi <= lo {
		return lo
	}
	return lo + s.Intn(hi-lo+1)
}

// Begin opens a group of draws.
func (s *Stream) Begin(kind string) {
	s.stack = append(s.stack, len(s.spans))
	s.spans = append(s.spans, Span{From: len(s.out), To: -1, Kind: kind})
}

// End closes the innermost open group.
func (s *Stream) End() {
	if len(s.stack) == 0 {
		return
	}
	i := s.stack[len(s.stack)-1]
	s.stack = s.stack[:len(s.stack)-1]
	s.spans[i].To = len(s.out)
}

// Len is the number of draws handed out so far.
func (s *Stream) Len() int { return len(s.out) }

// Tape is the set of streams of one run.
type Tape struct {
	Seed    uint64
	replay  bool
	rec     map[string][]uint32
	streams map[string]*Stream
}

// New returns a generating tape.
func New(seed uint64) *Tape {
	return &Tape{Seed: seed, streams: map[string]*Stream{}}
}

// Replay returns a tape that replays the recorded streams.
func Replay(seed uint64, rec map[string][]uint32) *Tape {
	return &Tape{Seed: seed, replay: true, rec: rec, streams: map[string]*Stream{}}
}

// Stream returns the named stream, creating it on first use.
func (t *Tape) Stream(name string) *Stream {
	if s, ok := t.streams[name]; ok {
		return s
	}
	s := &Stream{name: name, replay: t.replay}
	if t.replay {
		s.in = t.rec[name]
	} else {
		s.state = Mix(t.Seed ^ hashName(name))
	}
	t.streams[name] = s
	return s
}

// Record returns what every stream actually handed out.
func (t *Tape) Record() map[string][]uint32 {
	out := map[string][]uint32{}
	for n, s := range t.streams {
		out[n] = append([]uint32(nil), s.out...)
	}
	return out
}

// Spans returns the closed groups of every stream.
func (t *Tape) Spans() map[string][]Span {
	out := map[string][]Span{}
	for n, s := range t.streams {
		var l []Span
		for _, sp := range s.spans {
			if sp.To > sp.From {
				l = append(l, sp)
			}
		}
		out[n] = l
	}
	return out
}

// Names returns the stream names in sorted order.
func (t *Tape) Names() []string {
	var l []string
	for n := range t.streams {
		l = append(l, n)
	}
	sort.Strings(l)
	return l
}
