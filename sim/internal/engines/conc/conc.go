// Package conc is the engine for C05: concurrent requests over one shared
// Flame instance are isolated (equal to their solo outcome) and race-free.
package conc

import (
	"net/http"
	"os"
	"strings"
	"testing/fstest"
	"time"

	"verif/sim/internal/eng"
	"verif/sim/internal/sched"
	"verif/sim/internal/tape"
	"verif/sim/internal/world"
)

// Engine implements eng.Engine.
type Engine struct{}

func (Engine) Name() string     { return "conc" }
func (Engine) Property() string { return "C05" }
func (Engine) DistinctRule() string {
	return "a run = one set-up program + one workload (2-8 tasks x 1-4 requests) + one schedule, all drawn from the tape; " +
		"distinct = distinct hash of (workload draws, complete (task,site) schedule); non-trivial = at least one task switch happened while the task left behind was parked in the middle of a request"
}

// Profile is the generator profile of this engine.
func Profile() *world.Profile {
	p := &world.Profile{
		Patterns: world.RichPatterns,
		MwCounts: []int{0, 1, 2, 3, 5, 6, 7},
		LoggerPm: 300, ReqLoggerPm: 500,
		RecoveryPm: 500,
		RendererPm: 400,
		StaticPm:   250,
		SvcPm:      500,
		GroupPm:    450,
		ActionPm:   200,
		NotFoundPm: 500,
		BeforesPm:  200,
		AutoHeadPm: 200, WrapperPm: 200, WrapperRecPm: 600, StagedPm: 150,
		MinRoutes: 2, MaxRoutes: 10, MaxRouteHs: 3,
		Envs:      []int{0, 1, 2},
		HeadersPm: 120,
		NamedPm:   500,
		MaxActs:   3, NextMax: 1, RetW: []int{16, 1, 1},
		FinalEcho: true,
		PanicPm:   60, MissingPm: 40, BadStatus: 0, WFaultPm: 60, CancelPm: 60, DeadlinePm: 60, FaultFree: 400,
		MinTasks: 2, MaxTasks: 8, MinReqs: 1, MaxReqs: 4,
		HotPm: 300, NearPm: 150, HostilePm: 80,
		Methods: []string{"GET", "POST", "HEAD", "BREW", "DELETE", "get", "Post"}, MethodW: []int{20, 6, 4, 2, 2, 1, 1}, // (the last two: known methods in a spelling net/http lets through)
		ExtraPm: 330,
	}
	p.Shapes = make([]int, 24)
	for i, w := range map[int]int{world.ShCtx: 6, world.ShHTTP: 2, world.ShCtxTok: 3, world.ShCtxReqTok: 3, world.ShCtxStr: 3, world.ShCtxBytes: 1,
		world.ShCtxErr: 1, world.ShCtxIntStr: 1, world.ShCtxIntErr: 1, world.ShCtxStrErr: 1, world.ShTeapot: 1, world.ShLogger: 1,
		world.ShRWReqTok: 1, world.ShCtxRender: 2, world.ShCtxSvc: 0, world.ShInjector: 1, world.ShUserFast: 1, world.ShCtxPtrStr: 1, world.ShCtxNamedStr: 1, world.ShCtxNamedBytes: 1} {
		p.Shapes[i] = w
	}
	p.MwShapes = append([]int{}, p.Shapes...)
	p.MwShapes[world.ShCtxIntStr], p.MwShapes[world.ShCtxIntErr], p.MwShapes[world.ShTeapot] = 0, 0, 0
	p.Ops = make([]int, world.NumOps)
	for i, w := range map[int]int{world.OpYield: 5, world.OpWriteHeader: 0, world.OpWrite: 0, world.OpFlush: 0, world.OpNext: 4, world.OpNextSwallow: 1,
		world.OpCancel: 0, world.OpMapExtra: 2, world.OpSeeExtra: 4, world.OpEcho: 0, world.OpMark: 4, world.OpCheckMark: 4, world.OpSetHeader: 3,
		world.OpBefore: 1, world.OpRender: 1, world.OpRedirect: 1, world.OpStatus: 2, world.OpCookie: 1, world.OpSeeSvc: 2,
		world.OpMapIface: 1, world.OpSeeIface: 3, world.OpInvoke: 2, world.OpApply: 1, world.OpSeeBody: 2, world.OpMapRH: 1, world.OpMutQuery: 2, world.OpSeeNamer: 3} {
		p.Ops[i] = w
	}
	return p
}

var staticFS = http.FS(fstest.MapFS{
	"index.html":     {Data: []byte("<index>"), ModTime: time.Unix(1700000000, 0)},
	"app.js":         {Data: []byte("console.log('app')"), ModTime: time.Unix(1700000001, 0)},
	"sub/index.html": {Data: []byte("<sub-index>"), ModTime: time.Unix(1700000002, 0)},
	"u/alice":        {Data: []byte("shadow-file"), ModTime: time.Unix(1700000003, 0)},
})

// Run executes one simulated run.
func (Engine) Run(t *tape.Tape, o eng.Opts) *eng.Result {
	res := eng.NewResult()
	sw := t.Stream("swarm")
	gen := t.Stream("gen")
	fg := t.Stream("fault")
	p := Profile()
	cfgLong := false
	// Swarm: vary the mix per run.
	if sw.Intn(4) == 1 {
		p.StaticPm = 900
	}
	panicOdds := 10
	if world.AutoMode {
		panicOdds = 5
	}
	panicStorm := sw.Intn(panicOdds) == 1 // many requests panic at about the same time behind one Recovery, development pages on
	if sw.Intn(4) == 1 {
		p.MaxActs = 5
		p.NextMax = 2
	}
	longOdds := 8
	if world.AutoMode {
		longOdds = 4 // statement-level windows that need a warmed-up instance only open in long runs
	}
	if sw.Intn(longOdds) == 1 { // a long run: few tasks hammering a small set of hot paths on one instance
		p.MinTasks, p.MaxTasks, p.MinReqs, p.MaxReqs = 2, 3, 60, 110
		if world.AutoMode && sched.RaceOn {
			p.MinReqs, p.MaxReqs = 40, 60
		}
		if sw.Intn(2) == 1 {
			// one family of routes: several static leaves and a placeholder under a dynamic parent
			p.Patterns = world.RichPatterns[len(world.RichPatterns)-5:]
			p.MinRoutes, p.MaxRoutes = 5, 5
			p.GroupPm, p.HeadersPm = 0, 0
		}
		p.HotPm, p.HotPaths = 800, 4
		p.MwCounts = []int{0, 1, 2}
		p.MaxActs = 1
		p.PanicPm, p.CancelPm, p.DeadlinePm = 10, 10, 10
		cfgLong = true
	}
	if sw.Intn(4) == 1 { // early writes by middleware (most runs let requests reach their route)
		p.Ops[world.OpWrite], p.Ops[world.OpWriteHeader], p.Ops[world.OpFlush] = 2, 1, 1
		p.RetW = []int{5, 1, 1}
	}
	cfg := sched.Config{Sched: t.Stream("sched"), Time: t.Stream("time"), MaxSteps: world.StepCap(6000)}
	polW := []int{1, 4, 4, 3}
	if world.AutoMode {
		// the windows statement-level yields open are a few steps wide and mostly need one task
		// held back for a long stretch while others come and go: priority schedules do that
		polW = []int{1, 3, 3, 6}
	}
	switch sw.Weighted(polW...) {
	case 0:
		cfg.Policy = sched.PolRunToCompletion
	case 1:
		cfg.Policy = sched.PolUniform
	case 2:
		cfg.Policy = sched.PolSticky
		cfg.SwitchPermille = []int{100, 300, 600}[sw.Intn(3)]
		if world.AutoMode {
			// statement-level steps are ~25 times finer: keep bursts comparable to a request's length
			cfg.SwitchPermille = []int{4, 15, 60, 300}[sw.Intn(4)]
		}
	case 3:
		cfg.Policy = sched.PolPCT
		cfg.PCTDepth = 1 + sw.Intn(3)
		cfg.PCTHorizon = 40 + sw.Intn(200)
		if world.AutoMode {
			cfg.PCTHorizon *= 25 // statement-level yields: runs are that much longer, the change points spread with them
			cfg.PCTDepth = 2 + sw.Intn(2)
		}
	}
	// "Any number of requests": now and then several dozen requests are in flight at once and
	// advance in lock step, so that whatever is bounded per instance (slots, pools, tables)
	// meets more concurrent holders than it has room for.
	stormOdds := 12
	if world.AutoMode {
		stormOdds = 40 // a hundred requests at statement granularity cost as much as dozens of ordinary runs
	}
	taskStorm := !cfgLong && sw.Intn(stormOdds) == 1
	if world.AutoMode && sched.RaceOn {
		taskStorm = false // a hundred tasks at statement granularity under the race detector: minutes per run
	}
	if os.Getenv("SIM_FORCE_STORM") != "" && !cfgLong { // experimentation knob, never set by the checks
		taskStorm = true
	}
	if taskStorm {
		p.MinTasks, p.MaxTasks, p.MinReqs, p.MaxReqs = 70, 120, 1, 1
		if world.AutoMode {
			p.MaxTasks = 84
		}
		p.MethodW = []int{30, 1, 4, 1, 1, 1, 0}
		p.HotPm, p.HotPaths, p.HotStatic = 950, 1+sw.Intn(2), true
		p.MwCounts = []int{0, 1}
		p.MaxActs = 1
		p.PanicPm, p.CancelPm, p.DeadlinePm, p.WFaultPm = 10, 0, 0, 0
		if sw.Intn(2) == 1 {
			p.StaticPm = 1000
		}
		cfg.Policy = sched.PolRoundRobin
		if sw.Intn(3) == 0 {
			cfg.Policy = sched.PolUniform
		}
		cfg.MaxSteps = world.StepCap(60000)
		res.Probes["task_storms"]++
	}
	if panicStorm && !cfgLong && !taskStorm {
		p.PanicPm, p.MissingPm, p.RecoveryPm, p.FaultFree = 900, 120, 1000, 0
		p.MinTasks, p.MinReqs = 4, 2
		p.Envs = []int{0}
		res.Probes["panic_storms"]++
	}
	// slow node: one task may stall at an arbitrary step while one or two requests of other
	// tasks run to completion, and resume right after
	cfg.StallSite, cfg.StallPermille, cfg.StallHorizon = world.SiteReq, 200, 160
	if world.AutoMode {
		cfg.StallPermille, cfg.StallHorizon = 600, 4000
		if sw.Intn(3) != 0 {
			// stop between the evaluation of a nested call and the use of its value: the windows
			// only the expression-level yields (site 99) open
			cfg.StallCountSite, cfg.StallHorizon = 99, 500
		}
	}
	// What one tick of the virtual clock stands for (matters only to code that reads the clock or
	// arms timers: instrumented builds route package time to the simulator).
	sched.SetTick([]time.Duration{time.Millisecond, 100 * time.Microsecond, 10 * time.Millisecond, 100 * time.Millisecond}[sw.Intn(4)])
	freshTwin := sw.Intn(5) == 1
	if cfgLong {
		cfg.MaxSteps = world.StepCap(80000)
		freshTwin = false
		res.Probes["long_runs"]++
	}

	// Open workload: requests arrive on the virtual clock (arrival offsets, think times) instead
	// of back to back, so the number of requests in flight rises and falls during the run.
	openOdds := 3
	if world.AutoMode {
		openOdds = 2
	}
	openWl := !taskStorm && sw.Intn(openOdds) == 1
	if openWl && !cfgLong && sw.Intn(2) == 1 {
		// more requests per task, so that the population in flight goes up and down several times
		p.MinTasks, p.MaxTasks, p.MinReqs, p.MaxReqs = 3, 6, 4, 10
	}

	setup := world.GenSetup(gen, p)
	reqs := world.GenRequests(gen, fg, setup, p)
	if openWl {
		world.GenArrivals(t.Stream("arrival"), reqs)
	}
	var all []*world.Req
	for _, l := range reqs {
		all = append(all, l...)
	}
	opts := world.BuildOpts{FS: staticFS}
	w := world.Build(setup, all, opts)

	// Driver-side request clocks for virtual deadlines.
	n := len(reqs)
	cur := make([]int, n) // index of the request task i is serving
	started := make([]int64, n)
	fired := make([]bool, n)
	for i := range cur {
		cur[i] = -1
	}
	// Reach probe: how the population of requests in flight moves (a request is in flight from
	// the moment its task is released at the request boundary until the task parks there again).
	inflight := make([]bool, n)
	nIn, peak, fell, rises := 0, 0, false, 0
	cfg.OnYield = func(task, site int, now int64) {
		if (site == world.SiteReq || site == -1) && inflight[task] {
			inflight[task] = false
			nIn--
			fell = true
		}
		if site == world.SiteReq {
			cur[task]++
			started[task] = now
			fired[task] = false
		}
	}
	cfg.WakeCmd = func(task int, now int64) int {
		if !inflight[task] && cur[task] >= 0 && cur[task] < len(reqs[task]) {
			inflight[task] = true
			nIn++
			if nIn > peak {
				peak = nIn
			}
			if fell && nIn >= 2 {
				rises++ // the population grows again after it had shrunk
				fell = false
			}
		}
		k := cur[task]
		if k < 0 || k >= len(reqs[task]) || fired[task] {
			return 0
		}
		d := reqs[task][k].Deadline
		if d > 0 && now-started[task] >= d {
			fired[task] = true
			return sched.CmdCancel
		}
		return 0
	}
	cfg.Sleep = world.SleepFn(reqs, cur, started, res)
	cfg.KeepLog = o.Trace
	bodies := make([]func(*sched.Task), n)
	for i := range bodies {
		i := i
		bodies[i] = func(t *sched.Task) {
			for _, q := range reqs[i] {
				t.SetLocal(&q.Local)
				sched.Yield(world.SiteReq)
				w.Serve(q)
			}
			t.SetLocal(nil)
		}
	}
	sr := sched.Run(cfg, bodies)
	res.Steps, res.Ticks, res.Switches = sr.Steps, sr.Ticks, sr.Switches
	res.SchedHash, res.SwitchHash, res.SwitchPairs, res.Sites = sr.SchedHash, sr.SwitchHash, sr.SwitchPairs, sr.SiteHits
	res.Blocked = sr.BlockedHandovers
	world.NoteClock(sr, res)
	if openWl {
		res.Probes["open_workload:in_flight_rose_again_after_falling"] += rises
		if peak >= 3 {
			res.Probes["open_workload:peak_in_flight>=3"]++
		}
	}
	res.Faults["stalled-task"] += sr.Stalls
	res.Probes["stall_ended_by_progress_of_others"] += sr.StallThaws
	res.Requests = len(all)
	res.Nontrivial = len(sr.SwitchPairs) > 0
	rec := t.Record()
	res.Sig = eng.HashU32(eng.HashU32(sr.SchedHash+1, rec["gen"]), rec["fault"])

	viol := func(rule, detail string, shape map[string]string) {
		res.Violations = append(res.Violations, eng.Violation{Property: "C05", Rule: rule, Detail: detail, Shape: shape})
	}
	if sr.Deadlock {
		res.Poisoned = true
		viol("liveness.deadlock", "every unfinished task is blocked outside the scheduler and none is parked at a yield: the code under test hangs on its own", nil)
		return res
	}
	if sr.Capped {
		viol("liveness.step-budget", "the run exceeded its step budget although every request is finite when served alone", nil)
	}

	// Fault accounting (fired, not configured).
	for _, q := range all {
		if q.Staged && q.Body != "" {
			res.Probes["requests_with_staged_body"]++
		}
		for _, e := range q.Events {
			switch e.K {
			case world.EvCancel:
				if e.A == 0 {
					res.Faults["cancel-async"]++
				} else {
					res.Faults["cancel-self"]++
				}
			case world.EvRaise:
				res.Faults["panic:"+world.PanicKindNames[e.A]]++
			case world.EvSpyWrite:
				if e.S != "" {
					res.Faults["write-"+e.S]++
				}
			case world.EvSpyRefuse:
				res.Faults["bad-status"]++
			case world.EvEscaped:
				res.Probes["panic_escaped_own_task"]++
			}
		}
	}

	// Oracle 1: equality with the solo outcome.
	treqs := world.CloneForTwin(reqs)
	var tall []*world.Req
	for _, l := range treqs {
		tall = append(tall, l...)
	}
	var tw *world.World
	if !freshTwin {
		tw = world.Build(setup, tall, opts)
	}
	mismatches := 0
	for i := range treqs {
		for k, tq := range treqs[i] {
			if freshTwin {
				tw = world.Build(setup, tall, opts)
			}
			tq.Local.SoloCap = world.StepCap(20000)
			sched.SetSolo(&tq.Local)
			tw.Serve(tq)
			sched.SetSolo(nil)
			cq := reqs[i][k]
			a, b := cq.Outcome(), tq.Outcome()
			if cq.Local.TimersFired > 0 && a != b {
				// A timer the framework armed during this request became due while it was in flight
				// (it was slow: stalled, or others slept). Served alone it is never slow, so whatever
				// the callback did (a log line, a timeout answer) is a legitimate difference for this
				// one request; every other request, the race detector and the probes still judge it.
				res.Probes["twin_comparison_skipped:own_timer_fired"]++
				a = b
			}
			if a != b {
				mismatches++
				if mismatches <= 2 {
					viol("isolation.twin", "request "+cq.Line()+" under concurrency differs from the same request served alone\n  concurrent: "+a+"\n  alone:      "+b, nil)
				}
			}
			// Bounded progress, not speed: retry loops of correct lock-free code legitimately take
			// extra steps under contention (a hundred requests in lock step), so only a request that
			// needed an order of magnitude more than alone counts as not getting anywhere.
			if cq.Local.CIdx > 20*tq.Local.CIdx+2000 {
				viol("liveness.request-budget", "request "+cq.Line()+" needed more than twenty times the steps of its solo run", nil)
			}
			for _, e := range cq.Events {
				if e.K == world.EvEnter && e.S != "" && e.S[0] == 't' && e.S != "tok-"+cq.Name {
					viol("isolation.token", "handler of "+cq.Name+" was injected the request-scoped value "+e.S, nil)
				}
			}
		}
	}
	// Persistent corruption: the shared instance answers a serial probe set
	// after the concurrent phase and must again equal the twin.
	probes := 0
	for i := range reqs {
		if len(reqs[i]) == 0 || probes >= 3 {
			continue
		}
		cq, tq := reqs[i][0], treqs[i][0]
		pq := world.CloneForTwin([][]*world.Req{{cq}})[0][0]
		pq.PlannedCancel = tq.PlannedCancel
		w.Replace(pq)
		pq.Local.SoloCap = world.StepCap(20000)
		sched.SetSolo(&pq.Local)
		w.Serve(pq)
		sched.SetSolo(nil)
		probes++
		if a, b := pq.Outcome(), tq.Outcome(); a != b {
			viol("isolation.after", "request "+pq.Line()+" served alone on the shared instance after the concurrent phase differs from a fresh instance\n  shared: "+a+"\n  fresh:  "+b, nil)
		}
	}

	// Reach probes.
	for _, q := range all {
		if q.W == nil {
			continue
		}
		b := string(q.W.Body)
		i := strings.Index(b, " route=")
		if i < 0 {
			if q.W.Code == 404 {
				res.Probes["answered:not-found"]++
			} else {
				res.Probes["answered:by-middleware-or-static"]++
			}
			continue
		}
		pat := b[i+7:]
		if j := strings.Index(pat, " p."); j >= 0 {
			pat = pat[:j]
		} else if j := strings.Index(pat, " extra="); j >= 0 {
			pat = pat[:j]
		}
		switch {
		case strings.Contains(pat, "**"):
			res.Probes["route-kind:match-all"]++
		case strings.Contains(pat, "/?"):
			res.Probes["route-kind:optional"]++
		case strings.Contains(pat, ": /"):
			res.Probes["route-kind:regex"]++
		case strings.Contains(pat, "{"):
			res.Probes["route-kind:placeholder"]++
		case pat == "":
			res.Probes["route-kind:none(not-found chain)"]++
		default:
			res.Probes["route-kind:static-shortcut"]++
		}
		if strings.Contains(b, " url=") {
			res.Probes["named_route_url_built"]++
		}
		for _, kv := range q.Hdr {
			if kv[0] == "X-Gate" && (strings.HasSuffix(pat, "/h") || strings.Contains(b, "hdr=")) && kv[1] == "open" {
				res.Probes["header_gate_open_requests"]++
				break
			}
		}
	}
	if len(setup.Mw) != 0 && len(setup.Mw) != 1 && len(setup.Mw) != 2 && len(setup.Mw) != 4 && len(setup.Mw) != 8 {
		res.Probes["middleware_slice_spare_capacity_likely"]++
	}
	seen := map[string]int{}
	for ti, l := range reqs {
		for _, q := range l {
			key := q.Method + " " + q.Path
			if prev, ok := seen[key]; ok && prev != ti {
				res.Probes["same_path_from_two_tasks"]++
				break
			}
			seen[key] = ti
		}
	}
	if freshTwin {
		res.Probes["fresh_twin_per_request"]++
	}
	if len(w.RegErrors) > 0 {
		res.Probes["registration_rejected"]++
	}
	if o.Trace {
		res.Trace = append(res.Trace, "SETUP")
		res.Trace = append(res.Trace, setup.Describe()...)
		for ti, l := range reqs {
			for _, q := range l {
				res.Trace = append(res.Trace, "task"+itoaS(ti)+" "+q.Line())
				for _, d := range q.DescribeProgs() {
					res.Trace = append(res.Trace, "    "+d)
				}
				res.Trace = append(res.Trace, "    => "+q.Outcome())
			}
		}
		var sl strings.Builder
		for _, s := range sr.Log {
			sl.WriteString(itoaS(int(s.Task)))
			sl.WriteByte(':')
			sl.WriteString(world.SiteName(int(s.Site)))
			sl.WriteByte(' ')
		}
		res.Trace = append(res.Trace, "SCHEDULE "+sl.String())
	}
	return res
}

func itoaS(i int) string {
	if i < 0 {
		return "-" + itoaS(-i)
	}
	if i < 10 {
		return string(rune('0' + i))
	}
	return itoaS(i/10) + string(rune('0'+i%10))
}
