// Package rw is the engine for C13: the ResponseWriter state machine driven by
// operation histories over a faulty underlying writer, with an optional
// concurrent observer of Status()/Written().
package rw

import (
	"bytes"
	gocontext "context"
	"io"
	"net/http"
	"net/url"
	"time"

	"github.com/anishathalye/porcupine"
	"github.com/flamego/flamego"

	"verif/sim/internal/eng"
	"verif/sim/internal/sched"
	"verif/sim/internal/tape"
	"verif/sim/internal/world"
)

// Engine implements eng.Engine.
type Engine struct{}

func (Engine) Name() string     { return "rw" }
func (Engine) Property() string { return "C13" }

// CrossRunState: one Flame instance serves the via-Flame histories of the whole process.
func (Engine) CrossRunState() bool { return true }
func (Engine) DistinctRule() string {
	return "a case = one operation history (1-25 of WriteHeader/Write/Flush/Before/Status/Size/Written) on one NewResponseWriter(method, spy) with its fault plan and, in a third of the runs, a concurrent Status/Written observer under one schedule; " +
		"distinct = distinct hash of (method, flusher facet, operation+argument+fault sequence, observer interleaving); non-trivial = the history contains at least one operation that triggers a status"
}

const (
	opWriteHeader = iota
	opWrite
	opFlush
	opBefore
	opRead
	opWriteEmpty
	opCopy         // io.Copy(w, reader): uses a ReadFrom fast path if the writer has one
	opWriteString  // io.WriteString(w, s): uses a WriteString fast path if the writer has one
	opBeforeNested // a hook that registers another hook when it runs
	opHijack       // Hijack() through the wrapper (underlying writer may or may not support it)
	opPush         // Push() through the wrapper (the spy never supports it)
)

var opNames = []string{"WriteHeader", "Write", "Flush", "Before", "Read", "Write(empty)", "io.Copy", "io.WriteString", "Before(nesting)", "Hijack", "Push"}

type op struct {
	Kind      int
	Code      int
	N         int
	HookID    int
	HookPanic bool
}

var methods = []string{"GET", "HEAD", "POST", "PUT", "DELETE", "OPTIONS", "", "head", "CONNECT"}

// codes a history may send on purpose (informational, empty-body and error statuses included).
var codes = []int{200, 201, 204, 301, 304, 404, 418, 500, 100, 103, 599, 999, 256, 512, 768, 300, 600, 750}

type hookRun struct {
	id     int
	during int  // index of the op that triggered it
	status int  // Status() it observed
	spyHad int  // status the spy held at that moment
	nested bool // registered by another hook while the hooks were running
}

// A companion response: a second writer that is alive while the history runs, driven by a short
// script of its own whose steps are interleaved with the history's operations. What one response
// does must not reach the other (hooks run on the writer they were registered on, once).
type compStep struct {
	kind int // 0 Before, 1 WriteHeader, 2 Write, 3 Flush
	code int
	id   int
	at   int // runs before the history's operation with this index (len(ops): after the last)
}

type compHook struct {
	id, step   int
	onOwnTurn  bool // ran while a companion step was executing
	sameWriter bool // was handed the companion writer
	spyHad     int
}

type opRec struct {
	call, ret   int64
	spyAfter    int
	statusAfter int
	panicked    bool
	n           int
	err         bool
}

type obsRec struct {
	call, ret int64
	kind      int // 0 Status, 1 Written
	val       int
	spyHad    int
}

type hInput struct {
	writer  bool
	kind    int
	code    int
	mayFail bool
}

var model = porcupine.Model{
	Init: func() interface{} { return 0 },
	Step: func(state, input, output interface{}) (bool, interface{}) {
		st := state.(int)
		in := input.(hInput)
		out := output.(int)
		if !in.writer {
			if in.kind == 0 {
				return out == st, st
			}
			w := 0
			if st != 0 {
				w = 1
			}
			return out == w, st
		}
		if st != 0 {
			return out == st, st
		}
		switch in.kind {
		case opWriteHeader:
			if out == in.code || (in.mayFail && out == 0) {
				return true, out
			}
			return false, st
		case opWrite, opFlush, opWriteEmpty, opCopy, opWriteString:
			if out == 200 || (in.mayFail && out == 0) {
				return true, out
			}
			return false, st
		}
		return out == 0, st
	},
	Equal: func(a, b interface{}) bool { return a.(int) == b.(int) },
}

// histState identifies the history in progress, so that a hook can tell whether it runs on the
// writer of the history that registered it.
type histState struct{ foreign int }

var (
	curHist  *histState
	histBody func(c flamego.Context)
	theFlame *flamego.Flame
)

// rwFlame is the process-wide instance histories run through: one route per method whose
// handler executes the current history on the context's own ResponseWriter.
func rwFlame() *flamego.Flame {
	if theFlame == nil {
		flamego.SetEnv(flamego.EnvTypeProd) // no stack pages: this engine is about the writer, and rendering one costs a millisecond
		f := flamego.NewWithLogger(world.Sink{})
		f.Any("/h", func(c flamego.Context) { histBody(c) })
		// the same behind Recovery: a history may be cut short by a panic out of the handler, and
		// what Recovery then does to the writer (status 500, a body) continues the history
		f.Any("/r", flamego.Recovery(), func(c flamego.Context) { histBody(c) })
		theFlame = f
	}
	return theFlame
}

// regAtOf finds the operation that registered hook id.
func regAtOf(ops []op, id int) (int, bool) {
	for i, x := range ops {
		if (x.Kind == opBefore || x.Kind == opBeforeNested) && x.HookID == id {
			return i, true
		}
	}
	return 0, false
}

// badStatus makes one WriteHeader of the history carry a code the underlying writer refuses.
func badStatus(fg *tape.Stream, ops []op) {
	if !fg.Chance(200) {
		return
	}
	var idx []int
	for i, x := range ops {
		if x.Kind == opWriteHeader {
			idx = append(idx, i)
		}
	}
	if len(idx) > 0 {
		ops[idx[fg.Intn(len(idx))]].Code = world.BadCodes[fg.Intn(len(world.BadCodes))]
	}
}

// Run executes one simulated run.
func (Engine) Run(t *tape.Tape, o eng.Opts) *eng.Result {
	res := eng.NewResult()
	sw := t.Stream("swarm")
	gen := t.Stream("gen")
	fg := t.Stream("fault")
	sched.ResetStamp()

	method := methods[gen.Weighted(4, 3, 2, 1, 1, 1, 1, 1, 1)]
	flusher := gen.Intn(2) == 1
	readerFrom := gen.Intn(3) == 1
	hijacker := gen.Intn(3) == 1
	bulk := sw.Intn(400) == 7 // one history in 400 pushes more than 2 GiB through the writer
	faultFree := fg.Chance(350)
	withObserver := sw.Intn(3) == 1
	nops := 1 + gen.Intn(25)
	if withObserver && nops > 14 {
		nops = 14
	}
	var ops []op
	hookID := 0
	for i := 0; i < nops; i++ {
		gen.Begin("op")
		k := gen.Weighted(5, 6, 3, 4, 3, 1, 2, 2, 1, 1, 1)
		x := op{Kind: k}
		switch k {
		case opWriteHeader:
			x.Code = codes[gen.Intn(len(codes))]
		case opWrite, opCopy, opWriteString:
			x.N = 1 + gen.Intn(64)
			if gen.Intn(40) == 7 {
				x.N = 70000 // larger than the 32 KiB buffers of io.Copy and friends
			}
		case opBeforeNested:
			x.HookID = hookID
			hookID += 2 // the nested hook gets HookID+1
		case opBefore:
			x.HookID = hookID
			hookID++
		}
		gen.End()
		ops = append(ops, x)
	}
	var comp []compStep
	if !bulk && sw.Intn(3) == 0 {
		gen.Begin("companion")
		at, hid := 0, 0
		for i, n := 0, 2+gen.Intn(5); i < n; i++ {
			at += gen.Intn(3)
			if at > nops {
				at = nops
			}
			st := compStep{kind: gen.Weighted(4, 3, 1, 1), at: at}
			switch st.kind {
			case 0:
				st.id = hid
				hid++
			case 1:
				st.code = codes[gen.Intn(len(codes))]
				if gen.Intn(5) == 0 {
					st.code = world.BadCodes[gen.Intn(len(world.BadCodes))]
				}
			}
			comp = append(comp, st)
		}
		gen.End()
	}
	q := &world.Req{Name: "h", Method: method}
	q.PlannedCancel = -1
	if !faultFree {
		fg.Begin("fault")
		if fg.Chance(300) {
			q.WPlan = append(q.WPlan, world.WFault{At: fg.Intn(4), Kind: 1 + fg.Intn(3), Keep: fg.Intn(8)})
		}
		if fg.Chance(60) {
			q.WPlan = append(q.WPlan, world.WFault{At: fg.Intn(2), Kind: 4})
		}
		for rep := 0; rep < 2; rep++ {
			if rep == 1 && !fg.Chance(300) {
				break
			}
			badStatus(fg, ops)
		}
		if false {
			var idx []int
			for i, x := range ops {
				if x.Kind == opWriteHeader {
					idx = append(idx, i)
				}
			}
			if len(idx) > 0 {
				ops[idx[fg.Intn(len(idx))]].Code = world.BadCodes[fg.Intn(len(world.BadCodes))]
			}
		}
		if fg.Chance(80) { // a BeforeFunc panics
			var idx []int
			for i, x := range ops {
				if x.Kind == opBefore {
					idx = append(idx, i)
				}
			}
			if len(idx) > 0 {
				ops[idx[fg.Intn(len(idx))]].HookPanic = true
			}
		}
		fg.End()
	}
	spy := world.NewSpy(q)
	under := spy.WriterFacets(flusher, readerFrom, hijacker)
	// One history in four runs inside a handler, on the writer flamego itself created for the
	// request, through one Flame instance that lives as long as the process: whatever the
	// framework keeps between requests (pooled writers, ...) is then part of the history.
	viaFlame := !withObserver && !bulk && method != "" && method != "head" && sw.Intn(4) == 1
	var w flamego.ResponseWriter
	// One direct history in five runs on a wrapper stacked on another wrapper (what a nested
	// instance or a "serve HEAD with the GET code" adapter builds): the inner one is a GET writer
	// and therefore transparent, so everything the statement says about "the underlying writer"
	// can still be read off the spy.
	stacked := !viaFlame && !bulk && sw.Intn(5) == 1
	// One via-Flame history in three rewrites the request's method inside the handler before it
	// touches the writer (what a method-override middleware does); the request that arrived
	// keeps deciding whether body bytes may be forwarded.
	rewriteMethod := viaFlame && sw.Intn(3) == 1
	// One via-Flame history in three is cut short: after a prefix of its operations the handler
	// panics, and Recovery (in front of it) finishes the response. The statement speaks of every
	// sequence of operations, whoever issues them: hooks registered by the handler must still run
	// once before Recovery's status reaches the underlying writer, and Status/Written/Size must be
	// truthful when ServeHTTP returns.
	panicOut := viaFlame && sw.Intn(3) == 1
	// One via-Flame history in four has its request context cancelled (the client went away, a
	// deadline passed) before one of its operations: nothing the statement says about the writer
	// depends on the request still being wanted.
	cancelAt := -1
	if viaFlame && sw.Intn(4) == 1 {
		cancelAt = gen.Intn(len(ops) + 1)
	}
	cancelReq := func() {}
	if panicOut && len(ops) > 1 {
		ops = ops[:1+gen.Intn(len(ops))]
	}
	if stacked {
		w = flamego.NewResponseWriter(method, flamego.NewResponseWriter("GET", under))
		res.Probes["stacked_wrappers"]++
	} else if !viaFlame {
		w = flamego.NewResponseWriter(method, under)
	}
	me := &histState{}

	var hooks []hookRun
	recs := make([]opRec, len(ops))
	curOp := -1
	// the companion response
	qb := &world.Req{Name: "b", Method: "GET"}
	qb.PlannedCancel = -1
	spyB := world.NewSpy(qb)
	var wB flamego.ResponseWriter
	if len(comp) > 0 {
		wB = flamego.NewResponseWriter("GET", spyB.WriterFacets(true, false, false))
		res.Probes["companion_responses"]++
	}
	compTurn := false // a companion step is executing
	crossed := 0      // hooks of the history that ran during a companion step
	var compHooks []compHook
	compCommit := -1 // step after which the companion's underlying writer held a status
	var compFails []string
	compRun := func(pos int) {
		for si, st := range comp {
			if st.at != pos {
				continue
			}
			si, st := si, st
			compTurn = true
			func() {
				defer func() {
					if p := recover(); p != nil {
						if _, ok := p.(sched.Abort); ok {
							panic(p)
						}
					}
				}()
				switch st.kind {
				case 0:
					id := st.id
					wB.Before(func(rw flamego.ResponseWriter) {
						compHooks = append(compHooks, compHook{id: id, step: -1, onOwnTurn: compTurn, sameWriter: rw == wB, spyHad: spyB.PeekCode()})
					})
				case 1:
					wB.WriteHeader(st.code)
				case 2:
					_, _ = wB.Write([]byte("companion"))
				case 3:
					wB.Flush()
				}
			}()
			compTurn = false
			for k := range compHooks {
				if compHooks[k].step < 0 {
					compHooks[k].step = si
				}
			}
			if compCommit < 0 && spyB.Code != 0 {
				compCommit = si
			}
			if wB.Status() != spyB.Code || wB.Written() != (spyB.Code != 0) || wB.Size() != len(spyB.Body) {
				compFails = append(compFails, "after companion step "+itoa(si)+" Status()/Written()/Size() = "+itoa(wB.Status())+"/"+b2s(wB.Written())+"/"+itoa(wB.Size())+" but its underlying writer holds status "+itoa(spyB.Code)+" and "+itoa(len(spyB.Body))+" body bytes")
			}
		}
	}
	writer := func() {
		for i, x := range ops {
			compRun(i)
			if i == cancelAt {
				cancelReq()
				res.Faults["request-context-cancelled-mid-history"]++
			}
			sched.Yield(world.SiteAct)
			curOp = i
			r := &recs[i]
			r.call = sched.Stamp()
			func() {
				defer func() {
					if p := recover(); p != nil {
						if _, ok := p.(sched.Abort); ok {
							panic(p)
						}
						r.panicked = true
					}
				}()
				switch x.Kind {
				case opWriteHeader:
					w.WriteHeader(x.Code)
				case opWrite:
					b := make([]byte, x.N)
					for j := range b {
						b[j] = byte('a' + (i+j)%26)
					}
					n, err := w.Write(b)
					r.n, r.err = n, err != nil
				case opWriteEmpty:
					n, err := w.Write(nil)
					r.n, r.err = n, err != nil
				case opCopy:
					b := make([]byte, x.N)
					for j := range b {
						b[j] = byte('A' + (i+j)%26)
					}
					var src io.Reader = bytes.NewReader(b) // an io.WriterTo: io.Copy lets it call Write
					if i%2 == 0 {
						src = struct{ io.Reader }{src} // a plain reader: io.Copy prefers the destination's ReadFrom
					}
					n, err := io.Copy(w, src)
					r.n, r.err = int(n), err != nil
				case opWriteString:
					b := make([]byte, x.N)
					for j := range b {
						b[j] = byte('0' + (i+j)%10)
					}
					n, err := io.WriteString(w, string(b))
					r.n, r.err = n, err != nil
				case opHijack:
					_, _, _ = w.(http.Hijacker).Hijack()
				case opPush:
					_ = w.Push("/pushed", nil)
				case opBeforeNested:
					id := x.HookID
					w.Before(func(rw flamego.ResponseWriter) {
						if curHist != me {
							curHist.foreign++
							return
						}
						if compTurn {
							crossed++
						}
						sched.Yield(world.SiteBefore)
						hooks = append(hooks, hookRun{id: id, during: curOp, status: rw.Status(), spyHad: spy.PeekCode()})
						rw.Before(func(rw2 flamego.ResponseWriter) {
							sched.Yield(world.SiteBefore)
							hooks = append(hooks, hookRun{id: id + 1, during: curOp, status: rw2.Status(), spyHad: spy.PeekCode(), nested: true})
						})
					})
				case opFlush:
					if (i+len(ops))%2 == 1 {
						// the Go 1.20+ way: a ResponseController, which prefers FlushError() and unwraps
						_ = http.NewResponseController(w).Flush()
					} else {
						w.Flush()
					}
				case opBefore:
					id, pan := x.HookID, x.HookPanic
					w.Before(func(rw flamego.ResponseWriter) {
						if curHist != me {
							curHist.foreign++ // a hook of an earlier history runs on a later request's writer
							return
						}
						if compTurn {
							crossed++
						}
						sched.Yield(world.SiteBefore)
						hooks = append(hooks, hookRun{id: id, during: curOp, status: rw.Status(), spyHad: spy.PeekCode()})
						if pan {
							panic("hook " + itoa(id) + " panics")
						}
					})
				case opRead:
				}
			}()
			r.spyAfter = spy.Code
			r.statusAfter = w.Status()
			r.ret = sched.Stamp()
			// (b) truthful accessors after every operation
			wr := w.Written()
			if r.statusAfter != spy.Code {
				q.Note("FAIL status-truth: after op " + itoa(i) + " Status()=" + itoa(r.statusAfter) + " but the underlying writer holds " + itoa(spy.Code))
			}
			if wr != (spy.Code != 0) {
				q.Note("FAIL written-truth: after op " + itoa(i) + " Written() disagrees with the underlying writer (holds " + itoa(spy.Code) + ")")
			}
			if w.Size() != len(spy.Body) {
				q.Note("FAIL size-truth: after op " + itoa(i) + " Size()=" + itoa(w.Size()) + " but " + itoa(len(spy.Body)) + " body bytes were forwarded")
			}
		}
		compRun(len(ops))
		if panicOut {
			curOp = len(ops)
			panic("the handler gives up (history cut short)")
		}
	}
	bulkWrites := 0
	if bulk {
		withObserver = false
	}
	var obs []obsRec
	nobs := 0
	if withObserver {
		nobs = 4 + sw.Intn(12)
	}
	observer := func() {
		for i := 0; i < nobs; i++ {
			sched.Yield(world.SiteObs)
			r := obsRec{kind: i % 2}
			r.call = sched.Stamp()
			if r.kind == 0 {
				r.val = w.Status()
			} else if w.Written() {
				r.val = 1
			}
			r.spyHad = spy.PeekCode()
			r.ret = sched.Stamp()
			obs = append(obs, r)
		}
	}

	curHist = me
	var sr *sched.Result
	if withObserver {
		cfg := sched.Config{Sched: t.Stream("sched"), Time: t.Stream("time"), MaxSteps: world.StepCap(4000), KeepLog: o.Trace}
		switch sw.Weighted(1, 4, 3) {
		case 0:
			cfg.Policy = sched.PolRunToCompletion
		case 1:
			cfg.Policy = sched.PolUniform
		case 2:
			cfg.Policy = sched.PolSticky
			cfg.SwitchPermille = 400
		}
		sr = sched.Run(cfg, []func(*sched.Task){
			func(t *sched.Task) { t.SetLocal(&q.Local); writer(); t.SetLocal(nil) },
			func(t *sched.Task) { observer() },
		})
		res.Steps, res.Ticks, res.Switches = sr.Steps, sr.Ticks, sr.Switches
		res.SchedHash, res.SwitchPairs, res.Sites = sr.SchedHash, sr.SwitchPairs, sr.SiteHits
		res.Blocked = sr.BlockedHandovers
		res.Probes["observer_runs"]++
	} else {
		q.Local.Init(-1, nil)
		q.Local.SoloCap = world.StepCap(4000)
		sched.SetSolo(&q.Local)
		func() {
			defer func() { recover() }()
			if viaFlame {
				histBody = func(c flamego.Context) {
					w = c.ResponseWriter()
					if rewriteMethod {
						if c.Request().Method == "HEAD" {
							c.Request().Method = "GET"
						} else {
							c.Request().Method = "HEAD"
						}
						res.Probes["method_rewritten_in_handler"]++
					}
					writer()
				}
				path := "/h"
				if panicOut {
					path = "/r"
					res.Probes["histories_cut_short_by_a_panic_behind_recovery"]++
				}
				hreq := &http.Request{Method: method, URL: &url.URL{Path: path}, Header: http.Header{}, Proto: "HTTP/1.1", ProtoMajor: 1, ProtoMinor: 1, Host: "sim", RequestURI: path}
				if cancelAt >= 0 {
					ctx, cancel := gocontext.WithCancel(gocontext.Background())
					cancelReq = cancel
					hreq = hreq.WithContext(ctx)
				}
				rwFlame().ServeHTTP(under, hreq)
				cancelReq()
				if panicOut && w != nil {
					// what Recovery did is part of the history: the accessors are truthful at the end
					want := len(spy.Body)
					if w.Status() != spy.Code || w.Written() != (spy.Code != 0) || w.Size() != want {
						q.Note("FAIL status-truth: after Recovery finished the response Status()/Written()/Size() = " + itoa(w.Status()) + "/" + b2s(w.Written()) + "/" + itoa(w.Size()) + " but the underlying writer holds status " + itoa(spy.Code) + " and " + itoa(want) + " body bytes")
					}
				}
				res.Probes["histories_through_flame"]++
			} else {
				writer()
			}
		}()
		if bulk && method != "HEAD" {
			// more than 2 GiB through the writer, counted but not stored by the spy
			spy.CountOnly = true
			chunk := make([]byte, 1<<20)
			func() {
				defer func() { recover() }() // a pending hook of the history may panic on the first write
				for i := 0; i < 2100; i++ {
					n, err := w.Write(chunk)
					if err != nil || n != len(chunk) {
						break
					}
					bulkWrites++
				}
			}()
			if got, want := int64(w.Size()), int64(len(spy.Body))+spy.Count; got != want {
				q.Note("FAIL size-truth: after " + itoa(bulkWrites) + " further writes of 1 MiB Size() reports " + itoa(int(got)) + " but " + itoa(int(want)) + " body bytes were forwarded")
			}
			res.Probes["bulk_histories_over_2GiB"]++
		}
		sched.SetSolo(nil)
		res.Steps = q.Local.Idx
	}
	res.Cases = 1
	res.Requests = 1

	viol := func(rule, detail string) {
		for _, v := range res.Violations {
			if v.Rule == rule {
				return
			}
		}
		res.Violations = append(res.Violations, eng.Violation{Property: "C13", Rule: rule, Detail: detail + "\n  history: " + describe(method, flusher, ops, recs) + "\n  underlying writer saw: " + q.Trace()})
	}
	if sr != nil && (sr.Deadlock || sr.Capped) {
		res.Poisoned = sr.Deadlock
		viol("liveness", "the history did not finish within its step budget")
		return res
	}

	// ---- oracle ----
	refusedOrHookPanic := false
	firstStatusEv, firstBodyEv := -1, -1
	for i, e := range q.Events {
		switch e.K {
		case world.EvSpyHeader:
			if firstStatusEv < 0 {
				firstStatusEv = i
			}
			if e.S == "implicit" {
				viol("status-before-body", "body bytes (or a flush) reached the underlying writer before any status line")
			}
		case world.EvSpyHeader2:
			viol("one-status", "the underlying writer received a second status line ("+itoa(int(e.A))+")")
		case world.EvSpyWrite:
			if firstBodyEv < 0 {
				firstBodyEv = i
			}
			if method == "HEAD" {
				viol("head-no-body", "a HEAD request forwarded a body write to the underlying writer")
			}
			if e.S != "" {
				res.Faults["write-"+e.S]++
			}
		case world.EvSpyRefuse:
			refusedOrHookPanic = true
			res.Faults["bad-status"]++
		case world.EvNote:
			if len(e.S) > 5 && e.S[:5] == "FAIL " {
				rule := e.S[5:]
				for k := 0; k < len(rule); k++ {
					if rule[k] == ':' {
						rule = rule[:k]
						break
					}
				}
				viol(rule, e.S[5:])
			}
		}
	}
	_ = firstBodyEv
	if me.foreign > 0 {
		viol("hooks-once", itoa(me.foreign)+" BeforeFunc(s) registered on an earlier request's writer ran on this one")
	}
	// the companion response: nothing crossed over, and its own hooks obey the same rules
	if len(comp) > 0 {
		cdesc := func() string {
			names := []string{"Before", "WriteHeader", "Write", "Flush"}
			out := ""
			for i, st := range comp {
				out += " [" + itoa(i) + "@" + itoa(st.at) + "]" + names[st.kind]
				if st.kind == 1 {
					out += "(" + itoa(st.code) + ")"
				}
				if st.kind == 0 {
					out += "#" + itoa(st.id)
				}
			}
			return "\n  companion response (step@before-operation):" + out
		}
		if crossed > 0 {
			viol("hooks-once", itoa(crossed)+" BeforeFunc(s) registered on this response ran while another response that is alive at the same time was being written"+cdesc())
		}
		for _, f := range compFails {
			viol("status-truth", "companion response: "+f+cdesc())
		}
		regStep := map[int]int{}
		for i, st := range comp {
			if st.kind == 0 {
				regStep[st.id] = i
			}
		}
		seenC := map[int]int{}
		for k, h := range compHooks {
			seenC[h.id]++
			switch {
			case seenC[h.id] > 1:
				viol("hooks-once", "a BeforeFunc of the companion response ran more than once"+cdesc())
			case !h.onOwnTurn || !h.sameWriter:
				viol("hooks-once", "a BeforeFunc registered on the companion response ran on (or during an operation of) this response"+cdesc())
			case h.spyHad != 0:
				viol("hooks-before-status", "a BeforeFunc of the companion response ran after its status had reached the underlying writer"+cdesc())
			case compCommit >= 0 && regStep[h.id] > compCommit:
				viol("hooks-before-status", "a BeforeFunc registered on the companion response after its status had been sent ran nevertheless"+cdesc())
			case k > 0 && compHooks[k-1].step == h.step && compHooks[k-1].id < h.id:
				viol("hooks-order", "BeforeFuncs of the companion response ran in registration order"+cdesc())
			}
		}
		if compCommit >= 0 {
			for id, at := range regStep {
				if at < compCommit && seenC[id] == 0 {
					viol("hooks-once", "BeforeFunc "+itoa(id)+" of the companion response, registered before its status was sent, never ran"+cdesc())
				}
			}
		}
	}
	// hooks: at most once; observed Status()==0; before the accepted status; reverse order per trigger
	seenHook := map[int]int{}
	for _, h := range hooks {
		seenHook[h.id]++
		if seenHook[h.id] > 1 {
			viol("hooks-once", "BeforeFunc "+itoa(h.id)+" ran more than once")
		}
		if h.status != 0 {
			viol("hooks-before-status", "BeforeFunc "+itoa(h.id)+" observed Status()="+itoa(h.status)+" (it must run before the status is recorded)")
		}
		if h.spyHad != 0 {
			viol("hooks-before-status", "BeforeFunc "+itoa(h.id)+" ran after the status had reached the underlying writer")
		}
	}
	for i, x := range ops {
		if x.HookPanic {
			for _, h := range hooks {
				if h.id == x.HookID {
					refusedOrHookPanic = true
					res.Faults["hook-panic"]++
				}
			}
		}
		_ = i
	}
	// a function registered after the status has reached the underlying writer can no longer run
	// "before the status reaches the underlying writer": it must not run at all
	if spy.Code != 0 {
		trig := -1
		for i := range recs {
			if recs[i].spyAfter != 0 {
				trig = i
				break
			}
		}
		for _, h := range hooks {
			if at, ok := regAtOf(ops, h.id); ok && trig >= 0 && at > trig && !h.nested {
				viol("hooks-before-status", "BeforeFunc "+itoa(h.id)+" was registered after the status had been sent (operation "+itoa(at)+" > "+itoa(trig)+") and ran nevertheless")
			}
		}
	}
	// registration order vs run order, per triggering operation
	regAt := map[int]int{}
	for i, x := range ops {
		if x.Kind == opBefore || x.Kind == opBeforeNested {
			regAt[x.HookID] = i
		}
	}
	for i := 1; i < len(hooks); i++ {
		if hooks[i].during == hooks[i-1].during && hooks[i].id > hooks[i-1].id && !hooks[i].nested && !hooks[i-1].nested {
			viol("hooks-order", "BeforeFuncs ran in registration order instead of reverse order ("+itoa(hooks[i-1].id)+" before "+itoa(hooks[i].id)+")")
		}
	}
	// exactly once: every hook registered before the operation that got a status accepted has run by then
	if spy.Code != 0 {
		trig := -1
		for i := range recs {
			if recs[i].spyAfter != 0 {
				trig = i
				break
			}
		}
		if trig < 0 && panicOut {
			trig = len(recs) // the status was sent after the last operation of the handler, by Recovery
		}
		for id, at := range regAt {
			if at < trig && seenHook[id] == 0 {
				viol("hooks-once", "BeforeFunc "+itoa(id)+" registered before the first write never ran although status "+itoa(spy.Code)+" was sent")
			}
		}
		// a hook registered by a running hook was registered before the status reached the
		// underlying writer too: it runs (once) before that status
		for _, h := range hooks {
			if h.nested {
				continue
			}
			if x := ops[regAt[h.id]]; x.Kind == opBeforeNested && h.during <= trig && seenHook[h.id+1] == 0 {
				viol("hooks-once", "BeforeFunc "+itoa(h.id+1)+", registered by BeforeFunc "+itoa(h.id)+" while the hooks were running, never ran although status "+itoa(spy.Code)+" was sent afterwards")
			}
		}
		if trig >= 0 {
			for _, h := range hooks {
				if h.during > trig && regAt[h.id] < trig {
					viol("hooks-before-status", "BeforeFunc "+itoa(h.id)+" ran during operation "+itoa(h.during)+", after the status had been sent by operation "+itoa(trig))
				}
			}
		}
	}
	// positive obligations, only while the underlying writer has refused nothing
	if !refusedOrHookPanic {
		sent := 0
		for i, x := range ops {
			r := recs[i]
			if sent == 0 {
				switch x.Kind {
				case opWriteHeader:
					sent = x.Code
				case opWrite, opFlush, opWriteEmpty, opCopy, opWriteString:
					sent = 200
				}
			}
			if r.spyAfter != sent {
				viol("first-status", "after operation "+itoa(i)+" ("+opNames[x.Kind]+") the underlying writer should hold status "+itoa(sent)+" but holds "+itoa(r.spyAfter))
				break
			}
		}
	}
	// (c) observer: instantaneous truth + linearizability of the two-client history
	for _, ob := range obs {
		if world.AutoMode && ob.val == 0 && ob.spyHad != 0 {
			// statement-level yields open the window between the underlying writer taking the
			// status and the wrapper recording it; an observer there may still see "nothing
			// sent" — whether that is consistent is the linearizability check's business
			continue
		}
		if ob.kind == 0 && ob.val != ob.spyHad {
			viol("observer-status-truth", "a concurrent Status() returned "+itoa(ob.val)+" while the underlying writer held "+itoa(ob.spyHad))
		}
		if ob.kind == 1 && (ob.val == 1) != (ob.spyHad != 0) {
			viol("observer-written-truth", "a concurrent Written() disagreed with the underlying writer (held "+itoa(ob.spyHad)+")")
		}
	}
	if withObserver && len(ops)+len(obs) <= 40 {
		var hist []porcupine.Operation
		for i, x := range ops {
			hist = append(hist, porcupine.Operation{ClientId: 0, Input: hInput{writer: true, kind: x.Kind, code: x.Code, mayFail: refusedOrHookPanic || recs[i].panicked},
				Call: recs[i].call, Output: recs[i].spyAfter, Return: recs[i].ret})
		}
		for _, ob := range obs {
			hist = append(hist, porcupine.Operation{ClientId: 1, Input: hInput{kind: ob.kind}, Call: ob.call, Output: ob.val, Return: ob.ret})
		}
		switch porcupine.CheckOperationsTimeout(model, hist, 5*time.Second) {
		case porcupine.Illegal:
			viol("linearizability", "the writer/observer history is not linearizable against the one-register status model")
		case porcupine.Unknown:
			res.Probes["porcupine_unknown"]++
		default:
			res.Probes["porcupine_checked"]++
		}
	}

	// signature
	var sig uint64 = 1469598103934665603
	mixin := func(v uint64) { sig = (sig ^ v) * 1099511628211 }
	mixin(eng.Hash64(0, method))
	if flusher {
		mixin(7)
	}
	if readerFrom {
		mixin(11)
	}
	if hijacker {
		mixin(13)
	}
	trigger := false
	for i, x := range ops {
		mixin(uint64(x.Kind)<<20 | uint64(uint16(x.Code))<<4 | uint64(x.N&15))
		if x.Kind == opWriteHeader || x.Kind == opWrite || x.Kind == opFlush || x.Kind == opWriteEmpty || x.Kind == opCopy || x.Kind == opWriteString {
			trigger = true
		}
		if recs[i].panicked {
			mixin(99)
		}
	}
	for _, f := range q.WPlan {
		mixin(uint64(f.At)<<8 | uint64(f.Kind))
	}
	if sr != nil {
		mixin(sr.SchedHash)
	}
	res.Sig = sig
	res.Nontrivial = trigger
	if len(hooks) > 0 {
		res.Probes["hooks_ran"]++
	}
	if method == "HEAD" {
		res.Probes["head_histories"]++
	}
	if o.Trace {
		res.Trace = append(res.Trace, "HISTORY "+describe(method, flusher, ops, recs))
		res.Trace = append(res.Trace, "UNDERLYING "+q.Trace())
		hs := ""
		for _, h := range hooks {
			hs += "hook" + itoa(h.id) + "@op" + itoa(h.during) + "(status=" + itoa(h.status) + ") "
		}
		res.Trace = append(res.Trace, "HOOKS "+hs)
		if withObserver {
			s := ""
			for _, ob := range obs {
				s += []string{"Status", "Written"}[ob.kind] + "=" + itoa(ob.val) + "@" + itoa(int(ob.call)) + " "
			}
			res.Trace = append(res.Trace, "OBSERVER "+s)
			sl := ""
			for _, st := range sr.Log {
				sl += itoa(int(st.Task)) + ":" + world.SiteName(int(st.Site)) + " "
			}
			res.Trace = append(res.Trace, "SCHEDULE "+sl)
		}
	}
	return res
}

func describe(method string, flusher bool, ops []op, recs []opRec) string {
	s := "method=" + method
	if flusher {
		s += " +Flusher"
	}
	for i, x := range ops {
		s += " | " + opNames[x.Kind]
		switch x.Kind {
		case opWriteHeader:
			s += "(" + itoa(x.Code) + ")"
		case opWrite, opCopy, opWriteString:
			s += "(" + itoa(x.N) + "B)->" + itoa(recs[i].n)
			if recs[i].err {
				s += ",err"
			}
		case opBefore:
			s += "(hook" + itoa(x.HookID)
			if x.HookPanic {
				s += ",panics"
			}
			s += ")"
		}
		if recs[i].panicked {
			s += "!panic"
		}
		s += "=>" + itoa(recs[i].statusAfter)
	}
	return s
}

func itoa(i int) string {
	if i < 0 {
		return "-" + itoa(-i)
	}
	if i < 10 {
		return string(rune('0' + i))
	}
	return itoa(i/10) + string(rune('0'+i%10))
}

func b2s(b bool) string {
	if b {
		return "true"
	}
	return "false"
}
