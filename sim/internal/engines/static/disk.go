// Package static is the engine for C16: the Static middleware serves only
// regular files inside its directory and prefix, and stays silent otherwise —
// under file-system faults, concurrent changes of the tree and hostile paths.
package static

import (
	"os"

	"path/filepath"
	"strings"
	"testing/fstest"
	"time"
	"verif/sim/internal/sched"
)

type fileSpec struct {
	rel   string // path relative to the served directory ("" prefix) or to the root for outside files
	size  int
	isDir bool
}

// Inside the served directory.
var insideSpecs = []fileSpec{
	{"index.html", 60, false}, {"a.txt", 50, false}, {"empty.txt", 0, false}, {"big.bin", 3000, false},
	{"sub", 0, true}, {"sub/index.html", 70, false}, {"sub/b.txt", 40, false}, {"sub/home.htm", 45, false},
	{"noindex", 0, true}, {"noindex/c.txt", 40, false},
	{"deep/x/y", 0, true}, {"deep/x/y/z.txt", 55, false},
	{"idxdir", 0, true}, {"idxdir/index.html", 0, true}, {"idxdir/index.html/inner.txt", 40, false},
	{"home.htm", 45, false},
	{"ity", 0, true}, {"ity/page.html", 50, false}, {".env", 40, false}, {"app.js", 40, false},
	{"sp ace.txt", 40, false}, {"dot..file", 40, false},
	{"public%2Fa.txt", 40, false},                                 // a name that a second percent-decoding would turn into a path
	{"sub/public", 0, true}, {"sub/public/nested.txt", 40, false}, // the prefix string again, deeper in the tree
}

// devEntry is a non-regular, non-directory entry inside the served directory (a symlink to
// /dev/null on disk, a device-mode entry in the MapFS).
const devEntry = "devnull"

// Outside it (siblings of the served directory, including look-alikes).
var outsideSpecs = []fileSpec{
	{"outside/secret.txt", 60, false}, {"pubX/look.txt", 50, false}, {"secret.txt", 50, false}, {"pub.env", 40, false},
	{"outside/index.html", 50, false}, {"outside/a.txt", 50, false},
}

// content builds the sentinel content of a file: a header naming the file and
// its version, then a filler in which every 6-byte window names the file.
func content(inside bool, id, version, size int) []byte {
	if size == 0 {
		return nil
	}
	tag := "<f"
	if !inside {
		tag = "<o"
	}
	tok := tag + string(rune('a'+id%26)) + string(rune('a'+id/26)) + string(rune('0'+version%10)) + ">"
	s := "SENT" + tok
	for len(s) < size {
		s += tok
	}
	return []byte(s[:size])
}

type fileState struct {
	spec     fileSpec
	id       int
	versions [][]byte // every content the file ever had in this run
	until    []int64  // global event stamp at which versions[i] stopped being the file's content (0: still is)
	present  bool
	goneAt   int64 // original directories: global event stamp at which it stopped being a directory in this run (0: still is, or is again)
}

type disk struct {
	root, pub string
	files     map[string]*fileState
	order     []string
	dirty     bool
	mapfs     fstest.MapFS
	base      time.Time
}

var theDisk *disk

// getDisk creates the per-process tree on first use.
func getDisk() *disk {
	if theDisk != nil {
		return theDisk
	}
	base := os.Getenv("SIM_TMP")
	if base == "" {
		base = os.TempDir()
	}
	root, err := os.MkdirTemp(base, "simstatic-")
	if err != nil {
		panic(err)
	}
	d := &disk{root: root, pub: filepath.Join(root, "public"), files: map[string]*fileState{}, dirty: true, base: time.Unix(1700000000, 0)}
	d.mapfs = fstest.MapFS{}
	for i, sp := range insideSpecs {
		d.files[sp.rel] = &fileState{spec: sp, id: i}
		d.order = append(d.order, sp.rel)
		if sp.isDir {
			d.mapfs[sp.rel] = &fstest.MapFile{Mode: os.ModeDir | 0o755, ModTime: d.base}
		} else {
			d.mapfs[sp.rel] = &fstest.MapFile{Data: content(true, i, 0, sp.size), Mode: 0o644, ModTime: d.base.Add(time.Duration(i) * time.Second)}
		}
	}
	d.mapfs[devEntry] = &fstest.MapFile{Mode: os.ModeDevice | os.ModeCharDevice | 0o666, ModTime: d.base}
	// The process works from the root of the tree, so that flamego's default directory
	// ("public", relative) is the served directory and the root's other entries are outside it.
	os.MkdirAll(d.pub, 0o755)
	if err := os.Chdir(root); err != nil {
		panic(err)
	}
	theDisk = d
	return d
}

// Cleanup removes the tree (called at process exit).
func Cleanup() {
	if theDisk != nil {
		os.RemoveAll(theDisk.root)
	}
}

// reset restores the pristine tree.
func (d *disk) reset() {
	for _, f := range d.files {
		f.goneAt = 0
	}
	if !d.dirty {
		for _, f := range d.files {
			f.versions = f.versions[:1]
			f.until = []int64{0}
		}
		return
	}
	os.RemoveAll(d.root)
	os.MkdirAll(d.pub, 0o755)
	os.Chdir(d.root) // the old working directory was just removed
	for i, sp := range insideSpecs {
		f := d.files[sp.rel]
		p := filepath.Join(d.pub, filepath.FromSlash(sp.rel))
		if sp.isDir {
			os.MkdirAll(p, 0o755)
			f.present = true
			f.versions = [][]byte{nil}
			f.until = []int64{0}
			continue
		}
		os.MkdirAll(filepath.Dir(p), 0o755)
		c := content(true, i, 0, sp.size)
		os.WriteFile(p, c, 0o644)
		os.Chtimes(p, d.base, d.base.Add(time.Duration(i)*time.Second))
		f.versions = [][]byte{c}
		f.until = []int64{0}
		f.present = true
	}
	os.Symlink("/dev/null", filepath.Join(d.pub, devEntry))
	for i, sp := range outsideSpecs {
		p := filepath.Join(d.root, filepath.FromSlash(sp.rel))
		os.MkdirAll(filepath.Dir(p), 0o755)
		os.WriteFile(p, content(false, i, 0, sp.size), 0o644)
	}
	d.dirty = false
}

// Mutations of the served tree (each marks the disk dirty).

//go:norace
func (d *disk) replace(rel string, version int) {
	f := d.files[rel]
	if f == nil || f.spec.isDir {
		return
	}
	c := content(true, f.id, version, f.spec.size+version*3)
	p := filepath.Join(d.pub, filepath.FromSlash(rel))
	os.Remove(p)
	os.WriteFile(p, c, 0o644)
	d.endVersions(rel)
	f.versions = append(f.versions, c)
	f.until = append(f.until, 0)
	f.present = true
	d.dirty = true
}

//go:norace
func (d *disk) remove(rel string) {
	os.RemoveAll(filepath.Join(d.pub, filepath.FromSlash(rel)))
	d.endVersions(rel)
	d.dirty = true
}

// swapToDir replaces a regular file by a directory of the same name.
//
//go:norace
func (d *disk) swapToDir(rel string) {
	p := filepath.Join(d.pub, filepath.FromSlash(rel))
	os.RemoveAll(p)
	os.MkdirAll(p, 0o755)
	d.endVersions(rel)
	// MkdirAll brings every missing ancestor back as a directory
	for a := rel; strings.Contains(a, "/"); {
		a = a[:strings.LastIndex(a, "/")]
		if fi, err := os.Stat(filepath.Join(d.pub, filepath.FromSlash(a))); err == nil && fi.IsDir() {
			if f := d.files[a]; f != nil {
				f.goneAt = 0
			}
		}
	}
	d.dirty = true
}

// swapToFile replaces a directory by a regular file of the same name whose
// content is a fresh inside sentinel.
//
//go:norace
func (d *disk) swapToFile(rel string, version int) {
	p := filepath.Join(d.pub, filepath.FromSlash(rel))
	os.RemoveAll(p)
	f := d.files[rel]
	c := content(true, f.id, version, 40)
	os.WriteFile(p, c, 0o644)
	d.endVersions(rel)
	f.versions = append(f.versions, c)
	f.until = append(f.until, 0)
	d.dirty = true
}

//go:norace
func (d *disk) touch(rel string, k int) {
	p := filepath.Join(d.pub, filepath.FromSlash(rel))
	t := d.base.Add(time.Duration(1000+k) * time.Second)
	os.Chtimes(p, t, t)
	d.dirty = true
}

// endVersions marks every current version of rel, and of everything below it, as ended now.
//
//go:norace
func (d *disk) endVersions(rel string) {
	now := sched.Stamp()
	for name, f := range d.files {
		if name != rel && !strings.HasPrefix(name, rel+"/") {
			continue
		}
		if f.spec.isDir && f.goneAt == 0 {
			f.goneAt = now // removed, or replaced by a regular file
		}
		for i := range f.until {
			if f.until[i] == 0 {
				f.until[i] = now
			}
		}
	}
}

// attribute reports whether body is a contiguous range of some version of a
// regular file inside the served directory, and whether it carries a sentinel
// of a file outside it.
func (d *disk) attribute(body []byte, since int64) (insideRel string, outside bool, stale bool) {
	if strings.Contains(string(body), "<o") || strings.Contains(string(body), "SENT<o") {
		return "", true, false
	}
	if len(body) == 0 {
		return "*", false, false
	}
	for _, rel := range d.order {
		f := d.files[rel]
		if f.spec.isDir && len(f.versions) <= 1 {
			continue
		}
		for i, v := range f.versions {
			if len(v) > 0 && strings.Contains(string(v), string(body)) {
				if i < len(f.until) && f.until[i] != 0 && f.until[i] < since {
					stale = true // that content had already been replaced or removed when the request began
					insideRel = rel
					continue
				}
				return rel, false, false
			}
		}
	}
	return insideRel, false, stale
}

// containedIn reports whether body is a contiguous range of some version of
// the regular file rel.
func (d *disk) containedIn(rel string, body []byte) bool {
	f := d.files[rel]
	if f == nil {
		return false
	}
	for _, v := range f.versions {
		if len(v) > 0 && strings.Contains(string(v), string(body)) {
			return true
		}
	}
	return false
}

// contentAt returns the content rel had at event stamp t (nil, false if it did not exist as a
// regular file then).
func (d *disk) contentAt(rel string, t int64) ([]byte, bool) {
	f := d.files[rel]
	if f == nil {
		return nil, false
	}
	var start int64
	for i, v := range f.versions {
		end := int64(0)
		if i < len(f.until) {
			end = f.until[i]
		}
		if start <= t && (end == 0 || end > t) {
			if f.spec.isDir && i == 0 {
				return nil, false
			}
			return v, true
		}
		if end != 0 {
			start = end
		}
	}
	return nil, false
}

// changedBetween reports whether the content of rel at the second stamp differs from its
// content at the first (a replacement by identical bytes is no change).
func (d *disk) changedBetween(rel string, from, to int64) bool {
	a, okA := d.contentAt(rel, from)
	b, okB := d.contentAt(rel, to)
	if okA != okB {
		return true
	}
	return string(a) != string(b)
}
