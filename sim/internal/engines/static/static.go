package static

import (
	"fmt"
	"net/http"
	"net/url"
	"path"
	"path/filepath"
	"sort"
	"strings"
	"time"

	"verif/sim/internal/eng"
	"verif/sim/internal/sched"
	"verif/sim/internal/tape"
	"verif/sim/internal/world"
)

// Engine implements eng.Engine.
type Engine struct{}

func (Engine) Name() string     { return "static" }
func (Engine) Property() string { return "C16" }
func (Engine) DistinctRule() string {
	return "a case = one request (method, path, headers) against one Static configuration (prefix spelling, index, ETag/Expires/CacheControl, backing: http.Dir behind FaultFS / MapFS behind FaultFS / the Directory option) with its file-system fault plan and tree mutations, within 1-4 concurrent tasks; evaluations counts requests; " +
		"distinct = distinct (configuration, method, path, header kinds, file-system call/fault sequence, outcome class); non-trivial = the request reached the file system (at least one FS call, or a write by Static) or a fault/mutation fired"
}

var prefixes = []string{"", "public", "/public", "public/", "/public/", "/pre/fix", "/v1.0", "a+b/", "/50%off", "a%20b"}
var indexes = []string{"", "home.htm", "index.html", "missing.html", "/home.htm"}

// Paths relative to the prefix.
var relPaths = []string{
	"/", "/index.html", "/a.txt", "/empty.txt", "/big.bin", "/sub", "/sub/", "/sub/index.html", "/sub/b.txt", "/noindex", "/noindex/", "/noindex/c.txt",
	"/deep/x/y/z.txt", "/deep/x/y", "/deep", "/idxdir", "/idxdir/", "/home.htm", "/sp ace.txt", "/dot..file", "/.env", "/app.js", "/ity/page.html",
	"/missing.txt", "/sub/missing", "/a.txt/", "/a.txt/x", "/devnull", "/public/a.txt", "/sub/public/nested.txt", "/pre/fix/a.txt", "/public%2Fa.txt", "/%61.txt", "/sub%2Fb.txt", "/%2e%2e%2foutside%2fsecret.txt", "/secret.txt", "/outside/a.txt",
	"/../outside/secret.txt", "/sub/../../outside/secret.txt", "/../../../outside/secret.txt", "/../pubX/look.txt", "/../secret.txt", "/..", "/../", "/../pub.env",
	"/sub/../a.txt", "/sub/./b.txt", "/./a.txt", "//a.txt", "//sub", "//sub/", "/sub//", "/a.txt//", "/sub//b.txt", "///", "/a.txt\x00", "/\x00", "/sub/\x00/b.txt", "/..\\outside\\secret.txt",
	"/%2e%2e/outside/secret.txt", "/...", "/sub/..", "/sub/../", "/deep/x/../../a.txt", "/deep/../../outside/a.txt", "/outside/secret.txt", "/pub/a.txt",
}

// Paths that only look like the prefix "/public".
var lookAlikes = []string{"/publicpublic/a.txt", "/public/public", "/public%2Fa.txt", "/publ%69c/a.txt", "/public%2f..%2fsecret.txt", "/pre%2Ffix/a.txt", "/x/../public/a.txt", "//public/a.txt", "/./public/a.txt", "/x/../public/sub", "/x/../public/sub/", "/public/../public/a.txt", "/x/../pre/fix/a.txt", "/pre//fix/a.txt", "/publicity/page.html", "/public.env", "/publicapp.js", "/publi", "/publica.txt", "/Public/a.txt", "/public../outside/secret.txt", "/publicindex.html", "/other/a.txt", "/a.txt", "/pre/fixa.txt", "/pre/a.txt", "/pre", "/v1x0/a.txt", "/v100/sub/", "/v1/0/a.txt", "/v1.0x/a.txt", "/aab/a.txt", "/ab/a.txt", "/a+bb/a.txt", "/a b/a.txt", "/a b/sub/", "/50/a.txt", "/50%25off/a.txt"}

var methods = []string{"GET", "HEAD", "POST", "PUT", "DELETE", "get", "OPTIONS"}

var ranges = []string{"bytes=0-9", "bytes=5-", "bytes=-7", "bytes=100000-", "bytes=a-b", "bytes=3-3"}

type reqInfo struct {
	q        *world.Req
	rel      string // path below the prefix as generated ("" when the path is not meant to be under it)
	hasRange bool
	hasINM   bool
	hasIMS   bool
}

// normPrefix is the statement's reading of the option: leading slash, no
// trailing slash; empty means no prefix.
func normPrefix(p string) string {
	if p == "" {
		return ""
	}
	return "/" + strings.Trim(p, "/")
}

// underPrefix: the path lies under the prefix at a segment boundary.
func underPrefix(pth, pfx string) (rest string, ok bool) {
	if pfx == "" {
		return pth, true
	}
	if pth == pfx {
		return "", true
	}
	if strings.HasPrefix(pth, pfx+"/") {
		return pth[len(pfx):], true
	}
	return "", false
}

// Run executes one simulated run.
func (Engine) Run(t *tape.Tape, o eng.Opts) *eng.Result {
	res := eng.NewResult()
	sw := t.Stream("swarm")
	gen := t.Stream("gen")
	fg := t.Stream("fault")
	d := getDisk()
	d.reset()

	backing := sw.Weighted(4, 2, 3, 2) // 0 http.Dir behind FaultFS, 1 MapFS behind FaultFS, 2 Directory option, 3 default directory
	faultFree := fg.Chance(350)
	mutate := backing != 1 && !faultFree && sw.Intn(3) == 1
	cfg := sched.Config{Sched: t.Stream("sched"), Time: t.Stream("time"), MaxSteps: world.StepCap(12000), KeepLog: o.Trace}
	world.PickPolicy(sw, &cfg)
	// "Whenever it cannot serve ... it writes nothing" holds under load too: now and then 70-100
	// requests are in flight through one Static at once and advance in lock step, so that
	// whatever it bounds per instance (open files, slots) meets more holders than it has room for.
	stormOdds := 20
	if world.AutoMode {
		stormOdds = 60 // (never a function of the -race flag: plain and -race builds must draw the same run from one seed)
	}
	storm := sw.Intn(stormOdds) == 1
	if storm {
		cfg.Policy = sched.PolRoundRobin
		cfg.MaxSteps = world.StepCap(80000)
		res.Probes["task_storms"]++
	}

	spec := &world.StaticSpec{Prefix: prefixes[gen.Weighted(12, 8, 12, 4, 4, 4, 2, 2, 1, 1)], Index: indexes[gen.Weighted(4, 2, 1, 1, 1)], ETag: gen.Intn(2) == 1,
		Expires: gen.Intn(3) == 1, CacheControl: gen.Intn(3) == 1, Logging: gen.Intn(4) == 1, UseDirectory: backing == 2, DefaultDir: backing == 3, AlsoDirectory: backing < 2 && gen.Intn(3) == 1}
	setup := &world.Setup{Env: 1, Static: spec}
	setup.Mw = []world.HSpec{{Kind: world.HkToken}}
	if gen.Intn(4) == 1 {
		setup.Mw = append(setup.Mw, world.HSpec{Kind: world.HkLogger})
	}
	upstream := gen.Intn(3) == 1 // an earlier middleware has pre-set response headers: a silent Static leaves them alone
	if upstream {
		setup.Mw = append(setup.Mw, world.HSpec{Kind: world.HkUpstreamHeaders})
	}
	setup.Mw = append(setup.Mw, world.HSpec{Kind: world.HkStatic}, world.HSpec{Kind: world.HkSim, Shape: world.ShCtx})
	setup.Batches = []int{len(setup.Mw)}
	nextPos := len(setup.Mw) - 1
	pfx := normPrefix(spec.Prefix)
	index := spec.Index
	if index == "" {
		index = "index.html"
	}

	nt := gen.Range(1, 4)
	if storm {
		nt = gen.Range(70, 100)
	}
	reqs := make([][]*world.Req, nt)
	var infos []*reqInfo
	id := 0
	for ti := range reqs {
		n := gen.Range(1, 3)
		if storm {
			n = 1
		}
		for k := 0; k < n; k++ {
			gen.Begin("req")
			q := &world.Req{ID: id, Name: "q" + itoa(id), PlannedCancel: -1}
			if gen.Intn(4) == 1 {
				q.Query = "v=" + itoa(id)
			}
			id++
			info := &reqInfo{q: q}
			q.Method = methods[gen.Weighted(8, 3, 1, 1, 1, 1, 1)]
			switch gen.Weighted(8, 2) {
			case 0:
				info.rel = relPaths[gen.Intn(len(relPaths))]
				q.Path = pfx + info.rel
			case 1:
				q.Path = lookAlikes[gen.Intn(len(lookAlikes))]
			}
			if gen.Intn(5) == 1 {
				q.Hdr = append(q.Hdr, [2]string{"Range", ranges[gen.Intn(len(ranges))]})
				info.hasRange = true
			}
			if gen.Intn(6) == 1 {
				q.Hdr = append(q.Hdr, [2]string{"If-Modified-Since", []string{"Thu, 01 Jan 2037 00:00:00 GMT", "Thu, 01 Jan 1998 00:00:00 GMT", "garbage"}[gen.Intn(3)]})
				info.hasIMS = true
			}
			if gen.Intn(8) == 1 {
				// headers by which clients ask a server to treat the request as another method: the
				// method that arrived decides whether Static may answer
				name := []string{"X-HTTP-Method-Override", "X-Method-Override", "X-HTTP-Method"}[gen.Intn(3)]
				q.Hdr = append(q.Hdr, [2]string{name, []string{"GET", "HEAD", "get", "POST", "DELETE"}[gen.Intn(5)]})
			}
			if k > 0 && gen.Intn(3) == 1 {
				prev := reqs[ti][gen.Intn(k)]
				q.ETagOf = prev
				q.Path = prev.Path
				info.rel = ""
				for _, pi := range infos {
					if pi.q == prev {
						info.rel = pi.rel
					}
				}
				info.hasINM = true
				// Sometimes the tree changes between the answer that handed out the validator and
				// this conditional request: a request in between replaces or removes the very file.
				if own := strings.Trim(info.rel, "/"); mutate && gen.Intn(2) == 1 {
					if f := d.files[own]; f != nil {
						mq := &world.Req{ID: id, Name: "q" + itoa(id), PlannedCancel: -1, Method: "GET", Path: pfx + "/empty.txt"}
						id++
						version := 1 + gen.Intn(8)
						switch {
						case f.spec.isDir && gen.Intn(2) == 0:
							// a directory that was answered (redirected, or served through its index) goes
							// away or becomes a regular file before it is asked for again
							mq.FSMut = []world.FSMutation{{At: 0, What: "dir->file " + own, Do: func() { d.swapToFile(own, version) }}}
						case f.spec.isDir:
							mq.FSMut = []world.FSMutation{{At: 0, What: "remove " + own, Do: func() { d.remove(own) }}}
						case gen.Intn(2) == 0:
							mq.FSMut = []world.FSMutation{{At: 0, What: "replace " + own, Do: func() { d.replace(own, version) }}}
						default:
							mq.FSMut = []world.FSMutation{{At: 0, What: "remove " + own, Do: func() { d.remove(own) }}}
						}
						mq.Progs = make([][]world.Act, world.MaxPos)
						mq.Rets = make([]world.Ret, world.MaxPos)
						mq.Progs[nextPos] = []world.Act{{Op: world.OpSeeHeaders}, {Op: world.OpSeePath}, {Op: world.OpWrite, A: 8}}
						reqs[ti] = append(reqs[ti], mq)
						infos = append(infos, &reqInfo{q: mq, rel: "/empty.txt"})
					}
				}
			}
			q.Progs = make([][]world.Act, world.MaxPos)
			q.Rets = make([]world.Ret, world.MaxPos)
			q.Progs[nextPos] = []world.Act{{Op: world.OpSeeHeaders}, {Op: world.OpSeePath}, {Op: world.OpWrite, A: 8}}
			gen.End()
			if !faultFree {
				fg.Begin("fault")
				if backing < 2 && fg.Chance(350) {
					kind := world.FsErr
					keep := 0
					if fg.Intn(3) == 1 {
						kind, keep = world.FsShort, 1+fg.Intn(30)
					}
					q.FSPlan = append(q.FSPlan, world.FSFault{At: fg.Intn(8), Kind: kind, Keep: keep})
				}
				if mutate && fg.Chance(400) {
					target := []string{"a.txt", "index.html", "sub/index.html", "sub", "sub/b.txt", "noindex/c.txt", "home.htm", "big.bin", "idxdir"}[fg.Intn(9)]
					if own := strings.Trim(info.rel, "/"); fg.Intn(5) < 3 && d.files[own] != nil {
						target = own // aim at the very file or directory this request names
						if d.files[own].spec.isDir && d.files[strings.TrimPrefix(path.Join("/", own, index), "/")] != nil && fg.Intn(2) == 1 {
							target = strings.TrimPrefix(path.Join("/", own, index), "/")
						}
					}
					version := 1 + fg.Intn(8)
					m := world.FSMutation{At: fg.Intn(6)}
					f := d.files[target]
					switch op := fg.Intn(5); {
					case op == 0 && !f.spec.isDir:
						m.What, m.Do = "replace "+target, func() { d.replace(target, version) }
					case op == 1:
						m.What, m.Do = "remove "+target, func() { d.remove(target) }
					case op == 2 && !f.spec.isDir:
						m.What, m.Do = "file->dir "+target, func() { d.swapToDir(target) }
					case op == 3 && f.spec.isDir:
						m.What, m.Do = "dir->file "+target, func() { d.swapToFile(target, version) }
					default:
						m.What, m.Do = "touch "+target, func() { d.touch(target, version) }
					}
					q.FSMut = append(q.FSMut, m)
				}
				if fg.Chance(60) {
					q.WPlan = append(q.WPlan, world.WFault{At: fg.Intn(2), Kind: 1 + fg.Intn(2), Keep: fg.Intn(10)})
				}
				fg.End()
			}
			reqs[ti] = append(reqs[ti], q)
			infos = append(infos, info)
		}
	}
	var all []*world.Req
	for _, l := range reqs {
		all = append(all, l...)
	}
	opts := world.BuildOpts{Dir: d.pub, OtherDir: filepath.Join(d.root, "outside"),
		Expires: func() string { sched.Yield(world.SiteAct); return "Thu, 01 Jan 2026 00:00:00 GMT" },
		Cache:   func() string { sched.Yield(world.SiteAct); return "max-age=60" }}
	switch backing {
	case 0:
		opts.FS = world.FaultFS{Inner: http.Dir(d.pub)}
	case 1:
		opts.FS = world.FaultFS{Inner: http.FS(d.mapfs)}
	}
	w := world.Build(setup, all, opts)
	// a quarter of the runs are open workloads: requests arrive on the virtual clock, so the
	// number in flight rises and falls and idle periods pass between requests (see conc)
	if sw.Intn(4) == 1 {
		world.GenArrivals(t.Stream("arrival"), reqs)
	}
	sched.SetTick([]time.Duration{time.Millisecond, 100 * time.Microsecond, 10 * time.Millisecond, 100 * time.Millisecond}[sw.Intn(4)])
	sr := w.RunTasks(reqs, cfg, res)
	res.Requests = len(all)
	res.Cases = len(all)
	res.Probes["backing:"+[]string{"http.Dir+FaultFS", "MapFS+FaultFS", "Directory-option", "default-directory"}[backing]]++

	viol := func(rule, detail string) {
		for _, v := range res.Violations {
			if v.Rule == rule {
				return
			}
		}
		res.Violations = append(res.Violations, eng.Violation{Property: "C16", Rule: rule, Detail: detail})
	}
	if sr.Deadlock {
		viol("liveness.deadlock", "every unfinished task is blocked outside the scheduler")
		return res
	}
	if sr.Capped {
		viol("liveness.step-budget", "the run exceeded its step budget")
		return res // the run was cut off: requests that never got their turn have no record to judge
	}
	anyMutation := false
	for _, q := range all {
		for _, e := range q.Events {
			if e.K == world.EvFS && e.A == 9 {
				anyMutation = true
			}
		}
	}

	for _, info := range infos {
		q := info.q
		if q.Escaped == "ABORT" || q.W == nil {
			continue
		}
		// Split the record at the start of the next handler.
		nextAt := -1
		for i, e := range q.Events {
			if e.K == world.EvEnter {
				nextAt = i
				break
			}
		}
		end := len(q.Events)
		if nextAt >= 0 {
			end = nextAt
		}
		fsCalls, fsFaults, seekFault, mutations := 0, 0, false, 0
		contentFault := false // an injected seek/read fault fired while content was being served
		readFault := false
		staticStatus := 0
		staticBody := 0
		var fsSeq []string
		for i := 0; i < end; i++ {
			e := q.Events[i]
			switch e.K {
			case world.EvFS:
				if e.A == 9 {
					mutations++
					res.Faults["fs-mutate"]++
					continue
				}
				fsCalls++
				fsSeq = append(fsSeq, e.S)
				if e.A == 1 {
					fsFaults++
					op := e.S
					if k := strings.IndexByte(op, ' '); k > 0 {
						op = op[:k]
					}
					res.Faults["fs-"+op]++
					if op == "seek" {
						seekFault = true
					}
					if (op == "seek" || op == "read" || op == "read-short") && staticStatus == 0 {
						contentFault = true
					}
					if op == "read" || op == "read-short" {
						readFault = true
					}
				}
			case world.EvSpyHeader:
				if staticStatus == 0 {
					staticStatus = int(e.A)
				}
			case world.EvSpyWrite:
				staticBody += int(e.A)
				if e.S != "" {
					res.Faults["write-"+e.S]++
				}
			}
		}
		wrote := staticStatus != 0 || staticBody > 0
		body := q.W.Body
		if staticBody < len(body) {
			body = body[:staticBody]
		}
		headersAtNext := ""
		if nextAt >= 0 {
			for i := nextAt; i < len(q.Events); i++ {
				if q.Events[i].K == world.EvNote && strings.HasPrefix(q.Events[i].S, "headers=") {
					headersAtNext = q.Events[i].S[len("headers="):]
					break
				}
			}
		}
		desc := "request " + q.Method + " " + quote(q.Path) + hdrs(q) + " with Static{Prefix:" + quote(spec.Prefix) + " Index:" + quote(spec.Index) + " ETag:" + b2s(spec.ETag) + " backing:" + itoa(backing) + "}\n  record: " + q.Trace()
		if q.Escaped != "" {
			viol("panic", "Static panicked: "+q.Escaped+"\n  "+desc)
			continue
		}

		rest, under := underPrefix(q.Path, pfx)
		eligible := (q.Method == "GET" || q.Method == "HEAD") && under
		// Rule 1: gating.
		if !eligible {
			res.Probes["gated"]++
			if fsCalls > 0 {
				viol("gate-fs-call", "Static touched the file system for a request it must not answer (method/prefix)\n  "+desc)
			}
			if wrote {
				viol("gate-wrote", "Static answered a request it must not answer (method/prefix)\n  "+desc)
			}
		}
		// Rule 4: silent <=> the next handler ran.
		if !wrote && nextAt < 0 {
			viol("silent-but-chain-stopped", "Static wrote nothing, yet the next handler never ran\n  "+desc)
		}
		if wrote && nextAt >= 0 {
			viol("wrote-and-chain-continued", "Static wrote a response and the next handler ran as well\n  "+desc)
		}
		// Silent means silent: no response headers left behind for the rest of the chain.
		if upstream {
			if !wrote && nextAt >= 0 && headersAtNext != "Content-Type,X-Echo-Req,X-Upstream" && headersAtNext != "Content-Type,X-Upstream" {
				viol("silent-but-headers", "Static stayed silent but changed the response headers an earlier handler had set (Content-Type, X-Upstream): the next handler finds "+quote(headersAtNext)+"\n  "+desc)
			}
		} else if !wrote && nextAt >= 0 && headersAtNext != "" && headersAtNext != "X-Echo-Req" {
			viol("silent-but-headers", "Static stayed silent but left response headers behind: "+headersAtNext+"\n  "+desc)
		}
		// ... and none that appear later either: a silent Static must not leave anything armed (a
		// BeforeFunc, say) that decorates the response the rest of the chain produces. The handler
		// behind Static reports the header keys it finds and sets none itself.
		if !wrote && nextAt >= 0 && q.W != nil && q.W.Sent != nil {
			had := map[string]bool{}
			for _, k := range strings.Split(headersAtNext, ",") {
				had[k] = true
			}
			var late []string
			for k := range q.W.Sent {
				if !had[k] {
					late = append(late, k)
				}
			}
			sort.Strings(late)
			if len(late) > 0 {
				viol("silent-but-headers", "Static stayed silent, yet the response the next handler produced carries headers nobody behind Static set: "+strings.Join(late, ",")+"\n  "+desc)
			}
		}
		if nextAt >= 0 {
			for i := nextAt; i < len(q.Events); i++ {
				if e := q.Events[i]; e.K == world.EvNote && strings.HasPrefix(e.S, "sees=") {
					if e.S != "sees="+q.Method+" "+q.Path+"?"+q.Query {
						viol("request-rewritten", "the handler after Static sees "+quote(e.S[5:])+" instead of the request as it came in\n  "+desc)
					}
					break
				}
			}
		}
		if !wrote {
			res.Probes["silent"]++
			if fsCalls > 0 || mutations > 0 {
				res.Sigs = append(res.Sigs, sigOf(spec, backing, q, fsSeq, "silent"))
			}
			// Rule 6 (positive obligations), only where the tree is exactly the pristine one.
			if eligible && !anyMutation && fsFaults == 0 && len(q.FSPlan) == 0 && len(q.WPlan) == 0 && q.AsyncCancelAt < 0 && cleanRel(rest) {
				relFile := strings.TrimPrefix(rest, "/")
				if f := d.files[relFile]; f != nil && !f.spec.isDir && relFile != "" {
					viol("should-serve-file", "an existing regular file under the prefix was not served\n  "+desc)
				}
				if strings.HasSuffix(rest, "/") || rest == "" {
					dir := strings.Trim(rest, "/")
					if fd, ok := dirOK(d, dir); ok && fd {
						if f := d.files[strings.TrimPrefix(path.Join("/", dir, index), "/")]; f != nil && !f.spec.isDir && strings.HasSuffix(q.Path, "/") {
							viol("should-serve-index", "a directory with an index file, requested with a trailing slash, was not served through it\n  "+desc)
						}
					}
				}
			}
			continue
		}
		// Static wrote.
		class := "status-" + itoa(staticStatus)
		res.Probes["static_answered:"+class]++
		res.Sigs = append(res.Sigs, sigOf(spec, backing, q, fsSeq, class))
		// Rule 2: content.
		inRel, outside, stale := d.attribute(body, q.StartStamp)
		if stale && len(body) >= 12 && staticStatus >= 200 && staticStatus < 300 {
			viol("stale-content", "the body is a version of "+quote(inRel)+" that had been replaced or removed before this request began: "+quote(string(clip(body, 60)))+"\n  "+desc)
		}
		if outside {
			viol("outside-content", "bytes of a file outside the served directory reached the client: "+quote(string(clip(body, 80)))+"\n  "+desc)
		} else if staticStatus >= 200 && staticStatus < 300 && len(body) >= 6 {
			if inRel == "" {
				viol("foreign-content", "a 2xx body is not a contiguous range of any version of a regular file inside the served directory: "+quote(string(clip(body, 80)))+"\n  "+desc)
			} else {
				res.Probes["served_2xx_body"]++
				if strings.Contains(rest, "..") {
					res.Probes["traversal_resolved_inside"]++
				}
				// Rule 2b: on the pristine tree a clean path is answered with that very file (or its index).
				if !anyMutation && cleanRel(rest) && under {
					want := strings.Trim(rest, "/")
					if isDir, _ := dirOK(d, want); isDir && !strings.HasSuffix(q.Path, "/") {
						viol("directory-without-redirect", "a directory requested without trailing slash was answered with content instead of a redirect to its slash-terminated form\n  "+desc)
					}
					if !d.containedIn(want, body) && !d.containedIn(strings.TrimPrefix(path.Join("/", want, index), "/"), body) {
						viol("wrong-file", "the body is the content of "+quote(inRel)+" but the request names "+quote(want)+"\n  "+desc)
					}
				}
			}
		} else if (staticStatus >= 300 || staticStatus < 200) && strings.Contains(string(body), "SENT<") {
			viol("content-in-error-answer", "a "+itoa(staticStatus)+" answer carries file content\n  "+desc)
		}
		if q.Method == "HEAD" && staticBody > 0 {
			viol("head-body", "a HEAD request was answered with body bytes\n  "+desc)
		}
		// Rule 3: redirects.
		if staticStatus >= 300 && staticStatus < 400 && staticStatus != 304 {
			loc := q.W.Sent.Get("Location")
			want := path.Clean(q.Path) + "/"
			// The target is judged as a client would follow it: resolved against the path that was
			// asked for, on the same host, it must be the slash-terminated form of that path - however
			// the reference is spelled (absolute path, relative last element, percent-encoded).
			okLoc := loc == want
			if i := strings.IndexAny(loc, "?#"); i >= 0 && loc[:i] == want {
				okLoc = true // the request's query string carried over (a raw % in the path keeps url.Parse from seeing this)
			}
			if u, err := url.Parse(loc); !okLoc && err == nil && loc != "" {
				r := (&url.URL{Path: q.Path}).ResolveReference(u)
				okLoc = r.Scheme == "" && r.Host == "" && strings.HasSuffix(r.Path, "/") && path.Clean(r.Path)+"/" == want
			}
			if !okLoc || strings.HasSuffix(q.Path, "/") {
				viol("redirect-location", "redirect to "+quote(loc)+" instead of the slash-terminated form "+quote(want)+" of a slash-less directory path\n  "+desc)
			}
			if under {
				// also while the tree changes: a directory that had gone (removed, or replaced by a
				// regular file) before this request even arrived cannot be what is being redirected
				if f := d.files[strings.Trim(path.Clean("/"+rest), "/")]; f != nil && f.spec.isDir && f.goneAt != 0 && f.goneAt < q.StartStamp {
					viol("redirect-non-directory", "a path that had stopped being a directory before the request arrived was redirected\n  "+desc)
				}
			}
			if !anyMutation && under {
				if isDir, ok := dirOK(d, strings.Trim(path.Clean("/"+rest), "/")); ok && !isDir {
					viol("redirect-non-directory", "a path that is not a directory was redirected\n  "+desc)
				}
			}
			res.Probes["redirects"]++
		}
		if staticStatus == 304 && q.ETagOf != nil && !info.hasIMS && under && cleanRel(rest) {
			// the validator was handed out for the file as it was then: if the file has been
			// replaced, removed or swapped since, "not modified" is no longer true
			want := strings.Trim(rest, "/")
			if isDir, _ := dirOK(d, want); isDir {
				want = strings.TrimPrefix(path.Join("/", want, index), "/")
			}
			if d.changedBetween(want, q.ETagOf.EndStamp, q.StartStamp) {
				viol("stale-304", "304 Not Modified for "+quote(want)+", which was replaced or removed after the validator had been handed out and before this request began\n  "+desc)
			}
		}
		if staticStatus == 304 && !info.hasINM && !info.hasIMS && q.ETagOf == nil {
			viol("spurious-304", "304 without a conditional request\n  "+desc)
		}
		// Whatever cannot be served is passed over in silence; a slash-less directory is only ever redirected.
		if !anyMutation && under && cleanRel(rest) && fsFaults == 0 {
			want := strings.Trim(rest, "/")
			isDir, _ := dirOK(d, want)
			f := d.files[want]
			switch {
			case want == devEntry:
				// a device: neither a regular file nor missing; the statement is silent about it
			case want != "" && f == nil && !isDir:
				viol("answered-missing-file", "Static answered "+itoa(staticStatus)+" for a path that names nothing in the directory\n  "+desc)
			case isDir && !strings.HasSuffix(q.Path, "/") && (staticStatus < 300 || staticStatus >= 400):
				viol("directory-without-redirect", "a directory requested without trailing slash was answered "+itoa(staticStatus)+" instead of being redirected (or passed over)\n  "+desc)
			case isDir && strings.HasSuffix(q.Path, "/"):
				if fi := d.files[strings.TrimPrefix(path.Join("/", want, index), "/")]; fi == nil || fi.spec.isDir {
					viol("answered-directory-without-index", "Static answered "+itoa(staticStatus)+" for a directory that has no index file\n  "+desc)
				}
			}
		}
		// A plain 200 carries a whole file, not a piece of one (pieces are what 206 and faults produce).
		if staticStatus == 200 && q.Method == "GET" && !info.hasRange && len(q.WPlan) == 0 && !readFault && len(body) >= 6 {
			whole := false
			for _, rel := range d.order {
				for _, v := range d.files[rel].versions {
					if len(v) == len(body) && string(v) == string(body) {
						whole = true
					}
				}
			}
			if !whole {
				viol("partial-200", "a 200 answer without Range carries "+itoa(len(body))+" bytes that are not the whole content of any version of a file in the directory\n  "+desc)
			}
		}
		if staticStatus == 206 && q.Method == "GET" && len(q.WPlan) == 0 && !readFault {
			if cr := q.W.Sent.Get("Content-Range"); strings.HasPrefix(cr, "bytes ") {
				var a, b, n int
				if k, _ := fmt.Sscanf(cr, "bytes %d-%d/%d", &a, &b, &n); k == 3 && b-a+1 != staticBody {
					viol("content-range-mismatch", "Content-Range "+quote(cr)+" announces "+itoa(b-a+1)+" bytes but "+itoa(staticBody)+" were sent\n  "+desc)
				}
			}
		}
		// A complete answer is complete: without an injected read/write fault the body has the announced length.
		if q.W.NStatus > 1 {
			viol("second-status", "the underlying writer received "+itoa(q.W.NStatus)+" status lines\n  "+desc)
		}
		if (staticStatus == 200 || staticStatus == 206) && q.Method == "GET" && len(q.WPlan) == 0 && !readFault {
			if cl := q.W.Sent.Get("Content-Length"); cl != "" {
				n := 0
				okNum := true
				for _, c := range cl {
					if c < '0' || c > '9' || n > 1<<40 {
						okNum = false
						break
					}
					n = n*10 + int(c-'0')
				}
				if !okNum || n != staticBody {
					viol("length-mismatch", "Content-Length "+cl+" announced but "+itoa(staticBody)+" body bytes sent, with no read or write fault injected\n  "+desc)
				}
			}
		}
		// Rule 5: 5xx only after an injected fault (seek) — never file content with it (checked above).
		_ = seekFault
		if staticStatus >= 500 && !contentFault && mutations == 0 && !anyMutation {
			viol("unprovoked-5xx", "Static answered "+itoa(staticStatus)+" although no seek/read fault hit the file it was serving (a file it cannot open or stat must be passed over silently)\n  "+desc)
		}
		if staticStatus == 404 || staticStatus == 403 {
			viol("answered-not-found", "Static answered "+itoa(staticStatus)+" itself instead of staying silent\n  "+desc)
		}
	}
	res.Nontrivial = len(res.Sigs) > 0
	if o.Trace {
		res.Trace = append(res.Trace, "STATIC Prefix="+quote(spec.Prefix)+" Index="+quote(spec.Index)+" ETag="+b2s(spec.ETag)+" Expires="+b2s(spec.Expires)+" CacheControl="+b2s(spec.CacheControl)+
			" backing="+[]string{"http.Dir+FaultFS", "MapFS+FaultFS", "Directory-option", "default-directory"}[backing])
		for ti, l := range reqs {
			for _, q := range l {
				ln := "task" + itoa(ti) + " " + q.Method + " " + quote(q.Path) + hdrs(q)
				for _, f := range q.FSPlan {
					ln += " fsfault@" + itoa(f.At) + "/" + itoa(f.Kind)
				}
				for _, m := range q.FSMut {
					ln += " mutate@" + itoa(m.At) + ":" + m.What
				}
				res.Trace = append(res.Trace, ln)
				if q.W != nil {
					res.Trace = append(res.Trace, "    => "+itoa(q.W.Code)+" "+quote(string(clip(q.W.Body, 60)))+" | "+q.Trace())
				}
			}
		}
		sl := ""
		for _, s := range sr.Log {
			sl += itoa(int(s.Task)) + ":" + world.SiteName(int(s.Site)) + " "
		}
		res.Trace = append(res.Trace, "SCHEDULE "+sl)
	}
	return res
}

// cleanRel: the path below the prefix is already in canonical form, so which
// file it names is unambiguous.
func cleanRel(rest string) bool {
	if rest == "" || rest == "/" {
		return true
	}
	if !strings.HasPrefix(rest, "/") || strings.ContainsAny(rest, "\x00\\%") {
		return false
	}
	t := strings.TrimSuffix(rest, "/")
	return path.Clean(t) == t
}

// dirOK reports whether rel names a directory of the pristine tree.
func dirOK(d *disk, rel string) (isDir bool, known bool) {
	if rel == "" || rel == "." {
		return true, true
	}
	if f := d.files[rel]; f != nil {
		return f.spec.isDir, true
	}
	for _, r := range d.order {
		if strings.HasPrefix(r, rel+"/") {
			return true, true
		}
	}
	return false, true
}

func sigOf(spec *world.StaticSpec, backing int, q *world.Req, fsSeq []string, class string) uint64 {
	h := eng.Hash64(0, spec.Prefix+"|"+spec.Index+"|"+b2s(spec.ETag)+"|"+itoa(backing)+"|"+q.Method+"|"+q.Path+"|"+class)
	for _, kv := range q.Hdr {
		h = eng.Hash64(h, kv[0])
	}
	for _, s := range fsSeq {
		h = eng.Hash64(h, s)
	}
	return h
}

func hdrs(q *world.Req) string {
	s := ""
	for _, kv := range q.Hdr {
		s += " " + kv[0] + ":" + kv[1]
	}
	if q.ETagOf != nil {
		s += " If-None-Match:<etag of " + q.ETagOf.Name + ">"
	}
	return s
}

func clip(b []byte, n int) []byte {
	if len(b) > n {
		return b[:n]
	}
	return b
}

func b2s(b bool) string {
	if b {
		return "t"
	}
	return "f"
}

func quote(s string) string {
	out := "\""
	for i := 0; i < len(s); i++ {
		c := s[i]
		if c < 32 || c > 126 || c == '"' {
			out += "\\x" + string("0123456789abcdef"[c>>4]) + string("0123456789abcdef"[c&15])
		} else {
			out += string(c)
		}
	}
	return out + "\""
}

func itoa(i int) string {
	if i < 0 {
		return "-" + itoa(-i)
	}
	if i < 10 {
		return string(rune('0' + i))
	}
	return itoa(i/10) + string(rune('0'+i%10))
}
