// Package recovery is the engine for C15: with Recovery installed, a panic of
// any value raised by any later handler never escapes ServeHTTP, yields 500
// when no status had been sent, leaks detail only in development mode, lets
// earlier middleware finish, and leaves the application serving.
package recovery

import (
	"bytes"
	"time"

	"verif/sim/internal/eng"
	"verif/sim/internal/sched"
	"verif/sim/internal/tape"
	"verif/sim/internal/world"
)

// Engine implements eng.Engine.
type Engine struct{}

func (Engine) Name() string     { return "recovery" }
func (Engine) Property() string { return "C15" }
func (Engine) DistinctRule() string {
	return "a case = one request served through a chain that contains Recovery (application, group or route level) within a sequence of requests on 1-4 tasks; evaluations counts requests; " +
		"distinct = distinct (environment, Recovery position, chain shape, panic position/phase/value kind, event-kind sequence); non-trivial = a panic source (handler panic, failed dependency resolution, refused status, panicking BeforeFunc) fired behind Recovery, or the request follows such a request on the same instance"
}

// Profile is the generator profile of this engine.
func Profile() *world.Profile {
	p := &world.Profile{
		Patterns:     world.SimplePatterns,
		MwCounts:     []int{0, 1, 2, 3},
		LoggerPm:     200,
		RecoveryMust: true, RecoveryAny: true,
		RendererPm: 150,
		SvcPm:      300,
		EnvLatePm:  300,
		GroupPm:    500,
		ActionPm:   300,
		NotFoundPm: 1000,
		MinRoutes:  1, MaxRoutes: 4, MaxRouteHs: 4,
		Envs:    []int{0, 1, 2},
		MaxActs: 3, NextMax: 2, RetW: []int{4, 1, 1},
		PanicPm: 450, MissingPm: 150, BadStatus: 80, WFaultPm: 100, HookPanicPm: 50, RHPanicPm: 40, CancelPm: 40, DeadlinePm: 40, FaultFree: 100,
		MinTasks: 1, MaxTasks: 4, MinReqs: 2, MaxReqs: 6,
		HotPm: 250, HostilePm: 100,
		Methods: []string{"GET", "HEAD", "POST"}, MethodW: []int{5, 2, 1},
		KnownChain: true,
		StagedPm:   250,
	}
	p.Shapes = make([]int, 24)
	for i, w := range map[int]int{world.ShCtx: 8, world.ShHTTP: 1, world.ShCtxTok: 2, world.ShCtxReqTok: 1, world.ShCtxStr: 2, world.ShCtxBytes: 1,
		world.ShCtxErr: 1, world.ShCtxIntStr: 2, world.ShCtxIntErr: 1, world.ShCtxStrErr: 1, world.ShTeapot: 1, world.ShLogger: 1, world.ShRWReqTok: 1, world.ShCtxSvc: 0, world.ShInjector: 1, world.ShUserFast: 1, world.ShCtxPtrStr: 1, world.ShCtxNamedStr: 1} {
		p.Shapes[i] = w
	}
	p.Ops = make([]int, world.NumOps)
	for i, w := range map[int]int{world.OpYield: 2, world.OpWriteHeader: 2, world.OpWrite: 3, world.OpFlush: 1, world.OpNext: 5, world.OpNextSwallow: 1,
		world.OpSetHeader: 1, world.OpStatus: 1, world.OpSeeSvc: 1, world.OpMapExtra: 1, world.OpSeeExtra: 1, world.OpSetCL: 1, world.OpSetCT: 1, world.OpHijack: 1, world.OpBefore: 1, world.OpReplaceCtx: 1, world.OpExpireCtx: 1, world.OpCancel: 1} {
		p.Ops[i] = w
	}
	return p
}

type panicInfo struct {
	evIdx        int // index of the source event
	chain        int // chain index of the handler in whose dynamic extent it was raised
	kind         string
	hasTok       bool
	statusBefore int
	swallowed    bool
}

// Run executes one simulated run.
func (Engine) Run(t *tape.Tape, o eng.Opts) *eng.Result {
	res := eng.NewResult()
	sw := t.Stream("swarm")
	gen := t.Stream("gen")
	fg := t.Stream("fault")
	p := Profile()
	if sw.Intn(4) == 1 {
		p.PanicPm = 150
	}
	if sw.Intn(4) == 1 {
		p.MaxActs, p.NextMax = 5, 3
	}
	cfg := sched.Config{Sched: t.Stream("sched"), Time: t.Stream("time"), MaxSteps: world.StepCap(8000), KeepLog: o.Trace}
	world.PickPolicy(sw, &cfg)
	setup := world.GenSetup(gen, p)
	reqs := world.GenRequests(gen, fg, setup, p)
	var all []*world.Req
	for _, l := range reqs {
		all = append(all, l...)
	}
	w := world.Build(setup, all, world.BuildOpts{})
	// a quarter of the runs are open workloads: requests arrive on the virtual clock, so the
	// number in flight rises and falls and idle periods pass between requests (see conc)
	if sw.Intn(4) == 1 {
		world.GenArrivals(t.Stream("arrival"), reqs)
	}
	sched.SetTick([]time.Duration{time.Millisecond, 100 * time.Microsecond, 10 * time.Millisecond, 100 * time.Millisecond}[sw.Intn(4)])
	sr := w.RunTasks(reqs, cfg, res)
	res.Requests = len(all)
	res.Cases = len(all)

	viol := func(rule, detail string, shape map[string]string) {
		for _, v := range res.Violations {
			if v.Rule == rule {
				return
			}
		}
		res.Violations = append(res.Violations, eng.Violation{Property: "C15", Rule: rule, Detail: detail, Shape: shape})
	}
	if sr.Deadlock {
		viol("liveness.deadlock", "every unfinished task is blocked outside the scheduler", nil)
		return res
	}
	if sr.Capped {
		viol("liveness.step-budget", "the run exceeded its step budget: a request after a panic did not finish", nil)
		return res // the run was cut off: requests that never got their turn have no record to judge
	}
	name := func(hid int) string {
		if hid < 0 || hid >= len(w.Sims) {
			return "?"
		}
		return w.Sims[hid].Label + "#" + itoa(hid)
	}
	envName := []string{"development", "production", "test"}[setup.Env]

	sawPanic := map[int]bool{} // task -> a contained panic happened earlier on this instance
	anyPanic := false
	for ti, l := range reqs {
		for _, q := range l {
			if q.Escaped == "ABORT" {
				continue
			}
			full, ok := w.Full[q.Chain]
			if !ok {
				continue
			}
			world.CountFaults(q, res)
			recIdx := -1
			missingIdx := -1
			for i, e := range full {
				if e.Kind == world.HkRecovery && recIdx < 0 {
					recIdx = i
				}
				if e.HID >= 0 && e.Shape == world.ShMissing && missingIdx < 0 {
					missingIdx = i
				}
			}
			idxOf := func(hid int) int {
				for i, e := range full {
					if e.HID == hid {
						return i
					}
				}
				return -1
			}
			// Collect panic sources in event order.
			var panics []panicInfo
			lastEntered := -1
			status := 0
			started := map[int]bool{}
			// Recovery only protects what runs inside its own call of Next(): its dynamic extent is
			// recorded by the wrapper the builder puts around it (Recovery( ... )Recovery events).
			inFrame := make([]bool, len(q.Events)+1)
			// byOuterNext[i]: at event i a Next() call is open that a handler placed in front of
			// Recovery issued after Recovery had already returned (the one way the pinned tree resumes
			// the chain outside Recovery's frame: recorded finding D5). Anything else that runs a
			// handler behind Recovery outside its frame is the chain advancing on its own.
			byOuterNext := make([]bool, len(q.Events)+1)
			depth := 0
			recReturned := false
			var openOuter []int
			for i, e := range q.Events {
				switch e.K {
				case world.EvRecEnter:
					depth++
				case world.EvRecExit:
					depth--
					recReturned = true
				case world.EvNextCall:
					if h := idxOf(int(e.H)); h >= 0 && h < recIdx && depth == 0 && recReturned {
						openOuter = append(openOuter, int(e.H))
					}
				}
				inFrame[i] = depth > 0
				byOuterNext[i] = len(openOuter) > 0
				if e.K == world.EvNextRet || e.K == world.EvNextPanic {
					if n := len(openOuter); n > 0 && openOuter[n-1] == int(e.H) {
						openOuter = openOuter[:n-1]
					}
				}
			}
			inFrame[len(q.Events)] = depth > 0
			unwinding := false
			var running []int // handlers that have started and not yet returned, innermost last
			justExited := -1  // the handler whose exit event is the previous event (its return values are rendered next)
			for i, e := range q.Events {
				je := justExited
				switch e.K {
				case world.EvExit, world.EvPanicOut:
					if n := len(running); n > 0 {
						running = running[:n-1]
					}
					justExited = -1
					if e.K == world.EvExit {
						justExited = idxOf(int(e.H)) // its return values are rendered next, by the framework
					}
				case world.EvEnter, world.EvNextRet, world.EvNextPanic, world.EvRecEnter, world.EvRecExit, world.EvSwallow:
					justExited = -1 // control has moved on
				}
				switch e.K {
				case world.EvEnter:
					lastEntered = idxOf(int(e.H))
					running = append(running, lastEntered)
					started[lastEntered] = true
					unwinding = false
				case world.EvSpyHeader:
					if !unwinding && e.A == 500 && inFrame[i] && missingIdx >= 0 && fromRecovery(q.Events, i) {
						// Recovery answers a panic nobody raised through the simulator and no simulated
						// frame saw pass: the failed dependency resolution of the handler it invoked next
						res.Faults["di-missing"]++
						panics = append(panics, panicInfo{evIdx: i, chain: missingIdx, kind: "di-missing", statusBefore: status})
					}
					if status == 0 {
						status = int(e.A)
					}
					unwinding = false
				case world.EvSpyWrite, world.EvNextRet, world.EvExit, world.EvSwallow:
					unwinding = false
				case world.EvRaise:
					k := "hook"
					tok := true
					if e.A >= 0 {
						k = world.PanicKindNames[e.A]
						tok = e.A == world.PvString || e.A == world.PvError || e.A == world.PvStruct || e.A == world.PvWrapped || e.A == world.PvErrSlice || e.A == world.PvMap || e.A == world.PvEPIPE || e.A == world.PvConnReset || e.A == world.PvNotExist || e.A == world.PvFormatter || e.A == world.PvPublic || e.A == world.PvLineMapped || e.A == world.PvLineNoFile || e.A == world.PvUnicode || e.A == world.PvUnwrapPanics || e.A == world.PvIsPanics || e.A == world.PvInlinedHelper
					}
					at := idxOf(int(e.H))
					if e.A < 0 || at < 0 {
						// a BeforeFunc panics inside whoever's write triggered it: the handler whose return
						// values are being rendered, else the innermost one still running
						at = lastEntered
						if je >= 0 {
							at = je
						} else if n := len(running); n > 0 {
							at = running[n-1]
						}
					}
					panics = append(panics, panicInfo{evIdx: i, chain: at, kind: k, hasTok: tok, statusBefore: status})
					unwinding = true
				case world.EvSpyRefuse:
					// whose write was refused: the handler whose return values are being rendered, else
					// the innermost handler still running, else the last one that started
					at := lastEntered
					if je >= 0 {
						at = je
					} else if n := len(running); n > 0 {
						at = running[n-1]
					}
					panics = append(panics, panicInfo{evIdx: i, chain: at, kind: "refused-status", statusBefore: status})
					unwinding = true
				case world.EvNextPanic, world.EvPanicOut, world.EvEscaped:
					if !unwinding {
						// a panic nobody raised through the simulator: the framework's own, i.e. the
						// failed dependency resolution of the handler that asks for an unmapped type
						res.Faults["di-missing"]++
						panics = append(panics, panicInfo{evIdx: i, chain: missingIdx, kind: "di-missing", statusBefore: status})
						unwinding = true
					}
				}
			}
			if len(panics) == 0 {
				// bystander or follow-up: compared with the clean twin below
				continue
			}
			anyPanic = true
			allBehind := recIdx >= 0
			for _, pi := range panics {
				if pi.chain <= recIdx {
					allBehind = false
				}
			}
			if !allBehind {
				res.Probes["panic_in_front_of_recovery"]++
				continue
			}
			sawPanic[ti] = true
			outside := func(pi panicInfo) bool { return !inFrame[pi.evIdx] }
			first := panics[0]
			for _, pi := range panics { // the first source that Recovery's frame is responsible for
				if !outside(pi) {
					first = pi
					break
				}
			}
			last := panics[len(panics)-1]
			res.Probes["phase:"+phaseOf(first, q)]++
			res.Probes["recovery_level:"+levelOf(setup, recIdx, full)]++
			// was the first panic swallowed by a simulated middleware between Recovery and its source?
			swallowed := false
			for i := first.evIdx; i < len(q.Events); i++ {
				e := q.Events[i]
				if e.K == world.EvSwallow && idxOf(int(e.H)) > recIdx {
					swallowed = true
					break
				}
				if e.K == world.EvSpyHeader && i > first.evIdx {
					break
				}
			}
			shape := map[string]string{"env": envName, "kind": first.kind, "phase": phaseOf(first, q)}
			shapeOf := func(pi panicInfo) map[string]string {
				m := map[string]string{"env": envName, "kind": pi.kind, "phase": phaseOf(pi, q)}
				if outside(pi) {
					// the panicking handler was (re)started by a further Next() of a middleware placed in
					// front of Recovery, after Recovery's own Next() had returned
					m["outside-recovery-frame"] = "yes"
					m["resumed-by"] = "chain-advanced-on-its-own"
					if byOuterNext[pi.evIdx] {
						m["resumed-by"] = "next-of-outer-middleware"
					}
				}
				return m
			}
			anyOutside := false
			for _, pi := range panics {
				if outside(pi) {
					anyOutside = true
				}
			}
			if anyOutside {
				res.Probes["panic_outside_recovery_frame"]++
			}
			shape = shapeOf(first)
			// Rule 1: containment.
			if q.Escaped != "" {
				viol("escape", "a panic ("+last.kind+") raised behind Recovery escaped ServeHTTP: "+q.Escaped+"\n  request "+q.Line()+"\n  trace: "+q.Trace(), shapeOf(last))
				continue
			}
			if outside(first) {
				// every source lies outside Recovery's frame and was swallowed by someone else
				viol("status-500", "a panic ("+first.kind+") behind Recovery was never answered by it\n  trace: "+q.Trace(), shape)
				continue
			}
			if swallowed {
				res.Probes["swallowed_before_recovery"]++
				continue
			}
			// Rule 2: status.
			if first.statusBefore == 0 {
				if q.W.Code != 500 {
					viol("status-500", "no status had been sent when the panic ("+first.kind+") reached Recovery, yet the client got "+itoa(q.W.Code)+" instead of 500\n  request "+q.Line()+"\n  trace: "+q.Trace(), shape)
				}
			} else if q.W.Code != first.statusBefore {
				viol("first-status-stands", "status "+itoa(first.statusBefore)+" had been sent before the panic, but the client got "+itoa(q.W.Code), shape)
			}
			if q.W.NStatus > 1 {
				viol("one-status", "the underlying writer received "+itoa(q.W.NStatus)+" status lines\n  trace: "+q.Trace(), shape)
			}
			// Rule 3: detail only in development mode.
			if setup.Env != 0 {
				for _, pi := range panics {
					if !pi.hasTok {
						continue
					}
					tok := world.PanicToken(q.Name, posOfChain(w, full, pi.chain))
					if bytes.Contains(q.W.Body, []byte(tok)) || bytes.Contains(q.W.Body, []byte("PANICTOK-")) {
						viol("detail-leak", "panic detail ("+tok+") appears in the response body in "+envName+" mode: "+string(q.W.Body), shape)
					}
				}
				for k, vs := range q.W.Sent {
					for _, v := range vs {
						if bytes.Contains([]byte(v), []byte("PANICTOK-")) || bytes.Contains([]byte(v), []byte(".go:")) {
							viol("detail-leak", "panic detail appears in response header "+k+" in "+envName+" mode: "+v, shape)
						}
					}
				}
				if bytes.Contains(q.W.Body, []byte("goroutine ")) || bytes.Contains(q.W.Body, []byte(".go:")) {
					viol("detail-leak", "a stack trace appears in the response body in "+envName+" mode", shape)
				}
			}
			// Rule 4: middleware in front of Recovery completes its code after Next().
			for i, e := range q.Events {
				if (e.K == world.EvNextPanic || e.K == world.EvPanicOut) && idxOf(int(e.H)) < recIdx && idxOf(int(e.H)) >= 0 {
					src := first
					for _, pi := range panics {
						if pi.evIdx <= i {
							src = pi
						}
					}
					viol("outer-middleware", "middleware "+name(int(e.H))+" placed before Recovery did not complete normally ("+e.String()+")\n  trace: "+q.Trace(), shapeOf(src))
				}
			}
		}
	}

	// Rule 5: bystanders and follow-ups equal their outcome on an instance that never saw a panic.
	var clean [][]*world.Req
	var cleanOf []*world.Req
	for _, l := range reqs {
		var cl []*world.Req
		for _, q := range l {
			if q.Escaped == "ABORT" {
				continue
			}
			faulty := false
			for _, e := range q.Events {
				if e.K == world.EvRaise || e.K == world.EvSpyRefuse || e.K == world.EvEscaped || e.K == world.EvNextPanic {
					faulty = true
				}
			}
			if q.W.Code == 500 && setup.Env == 0 {
				faulty = true // development-mode panic pages carry stack text
			}
			full := w.Full[q.Chain]
			for _, e := range full {
				if e.HID >= 0 && e.Shape == world.ShMissing {
					faulty = true
				}
			}
			if !faulty {
				cl = append(cl, q)
				cleanOf = append(cleanOf, q)
			}
		}
		clean = append(clean, cl)
	}
	if len(cleanOf) > 0 {
		treqs := world.CloneForTwin(clean)
		var tall []*world.Req
		for _, l := range treqs {
			tall = append(tall, l...)
		}
		tw := world.Build(setup, tall, world.BuildOpts{})
		k := 0
		for i := range treqs {
			for j, tq := range treqs[i] {
				tw.ServeSolo(tq)
				cq := clean[i][j]
				if a, b := cq.Outcome(), tq.Outcome(); a != b {
					viol("as-if-nothing-happened", "request "+cq.Line()+" on the instance that recovered panics differs from the same request on an instance that never saw one\n  shared: "+a+"\n  clean:  "+b, nil)
				}
				k++
			}
		}
		if anyPanic {
			res.Probes["bystanders_compared"] += k
		}
	}

	// Rule 6: a request that panics is itself answered as it would be on a fresh instance
	// (the instance carries nothing over from earlier panics).
	for _, l := range reqs {
		for _, q := range l {
			if q.Escaped == "ABORT" || q.Escaped != "" {
				continue
			}
			isClean := false
			for _, c := range cleanOf {
				if c == q {
					isClean = true
				}
			}
			if isClean {
				continue
			}
			tq := world.CloneForTwin([][]*world.Req{{q}})[0][0]
			tw := world.Build(setup, []*world.Req{tq}, world.BuildOpts{})
			tw.ServeSolo(tq)
			res.Probes["panicking_requests_compared_with_fresh_instance"]++
			if setup.Env != 0 {
				if a, b := q.Outcome(), tq.Outcome(); a != b {
					viol("panic-response-as-alone", "the answer to panicking request "+q.Line()+" differs from the answer a fresh instance gives\n  shared: "+a+"\n  fresh:  "+b, nil)
				}
			} else if q.W.Code != tq.W.Code || bytes.Count(q.W.Body, []byte("<html>")) != bytes.Count(tq.W.Body, []byte("<html>")) || bytes.Count(q.W.Body, []byte("PANICTOK-")) != bytes.Count(tq.W.Body, []byte("PANICTOK-")) {
				viol("panic-response-as-alone", "the development-mode answer to panicking request "+q.Line()+" differs in status or structure from the answer a fresh instance gives (status "+itoa(q.W.Code)+" vs "+itoa(tq.W.Code)+", "+itoa(len(q.W.Body))+" vs "+itoa(len(tq.W.Body))+" bytes)", nil)
			}
		}
	}

	// signatures
	for _, q := range all {
		var sig uint64 = 1469598103934665603 ^ uint64(setup.Env)
		nontriv := false
		for _, e := range q.Events {
			sig = (sig ^ uint64(e.K)<<8 ^ uint64(uint16(e.A))) * 1099511628211
			if e.K == world.EvRaise || e.K == world.EvSpyRefuse || e.K == world.EvNextPanic {
				nontriv = true
			}
		}
		if q.W != nil && q.W.Code == 500 {
			nontriv = true
		}
		if nontriv {
			res.Sigs = append(res.Sigs, sig)
		}
	}
	res.Nontrivial = len(res.Sigs) > 0
	if o.Trace {
		res.Trace = world.TraceLines(setup, reqs, sr)
	}
	return res
}

func posOfChain(w *world.World, full []world.Entry, idx int) int {
	if idx >= 0 && idx < len(full) && full[idx].HID >= 0 {
		return w.Sims[full[idx].HID].Pos
	}
	return -1
}

func phaseOf(p panicInfo, q *world.Req) string {
	body := false
	inNext := 0
	for i := 0; i < p.evIdx && i < len(q.Events); i++ {
		switch q.Events[i].K {
		case world.EvSpyWrite:
			if q.Events[i].A > 0 {
				body = true
			}
		case world.EvNextCall:
			inNext++
		case world.EvNextRet, world.EvNextPanic:
			inNext--
		}
	}
	s := "before-write"
	if body {
		s = "after-partial-body"
	} else if p.statusBefore != 0 {
		s = "after-status"
	}
	if inNext > 0 {
		s += "+nested"
	}
	if p.kind == "di-missing" || p.kind == "refused-status" || p.kind == "hook" {
		s += "+" + p.kind
	}
	return s
}

func levelOf(s *world.Setup, recIdx int, full []world.Entry) string {
	if recIdx < len(s.Mw) {
		return "application"
	}
	return "group-or-route"
}

func itoa(i int) string {
	if i < 0 {
		return "-" + itoa(-i)
	}
	if i < 10 {
		return string(rune('0' + i))
	}
	return itoa(i/10) + string(rune('0'+i%10))
}

// fromRecovery reports whether the status event at i was sent by the Recovery middleware itself
// rather than by a simulated handler: a handler's own write is preceded by its attempt event
// (possibly with BeforeFunc events in between), a rendered return value by ret+exit.
func fromRecovery(ev []world.Ev, i int) bool {
	j := i - 1
	for j >= 0 && ev[j].K == world.EvBefore {
		j--
	}
	if j < 0 {
		return true
	}
	switch ev[j].K {
	case world.EvAttempt:
		return false
	case world.EvExit:
		if j > 0 && ev[j-1].K == world.EvRet {
			return false
		}
	}
	return true
}
