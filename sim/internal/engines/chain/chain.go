package chain

import (
	"verif/sim/internal/eng"
	"verif/sim/internal/sched"
	"verif/sim/internal/tape"
	"verif/sim/internal/world"
)

// Engine implements eng.Engine.
type Engine struct{}

func (Engine) Name() string     { return "chain" }
func (Engine) Property() string { return "C03" }
func (Engine) DistinctRule() string {
	return "a case = one request's handler programs run through one registered stack under one schedule/cancel instant; evaluations counts requests; " +
		"distinct = distinct sequence of (event kind, chain position) recorded for the request; non-trivial = the sequence contains at least one Next() call or one fired fault (cancel, panic, refused status, write fault)"
}

// Profile is the generator profile of this engine.
func Profile() *world.Profile {
	p := &world.Profile{
		Patterns:   world.SimplePatterns,
		MwCounts:   []int{0, 1, 2, 3, 4},
		LoggerPm:   150,
		RecoveryPm: 250, RecoveryAny: true,
		RendererPm: 100,
		GroupPm:    500,
		ActionPm:   400,
		NotFoundPm: 1000,
		MinRoutes:  1, MaxRoutes: 4, MaxRouteHs: 4,
		Envs:    []int{1, 2},
		MaxActs: 4, NextMax: 3, RetW: []int{3, 2, 1},
		PanicPm: 120, MissingPm: 120, BadStatus: 40, WFaultPm: 40, CancelPm: 150, DeadlinePm: 100, FaultFree: 300,
		TwinMethodPm: 300, WrapperPm: 300, RegVariantsPm: 250, AutoHeadPm: 300, BeforesPm: 200, Nested: true,
		MinTasks: 1, MaxTasks: 3, MinReqs: 2, MaxReqs: 6,
		HotPm: 200, HostilePm: 120,
		Methods: []string{"GET", "HEAD", "POST"}, MethodW: []int{5, 2, 1},
		ExtraPm: 0, KnownChain: true,
	}
	p.Shapes = make([]int, 24)
	for i, w := range map[int]int{world.ShCtx: 8, world.ShHTTP: 1, world.ShCtxTok: 2, world.ShCtxReqTok: 1, world.ShCtxStr: 3, world.ShCtxBytes: 1,
		world.ShCtxErr: 2, world.ShCtxIntStr: 2, world.ShCtxIntErr: 1, world.ShCtxStrErr: 1, world.ShTeapot: 1, world.ShLogger: 1, world.ShRWReqTok: 1, world.ShInjector: 1, world.ShUserFast: 1, world.ShCtxPtrStr: 1, world.ShCtxNamedStr: 1, world.ShCtxNamedBytes: 1} {
		p.Shapes[i] = w
	}
	p.Ops = make([]int, world.NumOps)
	for i, w := range map[int]int{world.OpYield: 2, world.OpWriteHeader: 2, world.OpWrite: 2, world.OpFlush: 1, world.OpNext: 5, world.OpNextSwallow: 1,
		world.OpCancel: 2, world.OpSetHeader: 1, world.OpStatus: 1, world.OpBefore: 1, world.OpReplaceCtx: 1, world.OpExpireCtx: 1, world.OpMapOwnWriter: 1, world.OpRedirect: 1, world.OpHTTPError: 1, world.OpCopy: 2, world.OpMapRH: 1, world.OpCookie: 1, world.OpNestedServe: 1, world.OpHijack: 1} {
		p.Ops[i] = w
	}
	return p
}

// Run executes one simulated run.
func (Engine) Run(t *tape.Tape, o eng.Opts) *eng.Result {
	res := eng.NewResult()
	sw := t.Stream("swarm")
	gen := t.Stream("gen")
	fg := t.Stream("fault")
	p := Profile()
	if sw.Intn(3) == 1 {
		p.MaxActs, p.NextMax = 6, 3
	}
	if sw.Intn(4) == 1 {
		p.RetW = []int{1, 2, 1}
	}
	if sw.Intn(4) == 1 {
		p.CancelPm, p.DeadlinePm = 400, 300
	}
	cfg := sched.Config{Sched: t.Stream("sched"), Time: t.Stream("time"), MaxSteps: world.StepCap(5000)}
	switch sw.Weighted(2, 3, 3, 2) {
	case 0:
		cfg.Policy = sched.PolRunToCompletion
	case 1:
		cfg.Policy = sched.PolUniform
	case 2:
		cfg.Policy = sched.PolSticky
		cfg.SwitchPermille = []int{100, 300, 600}[sw.Intn(3)]
	case 3:
		cfg.Policy = sched.PolPCT
		cfg.PCTDepth = 1 + sw.Intn(3)
		cfg.PCTHorizon = 40 + sw.Intn(200)
	}
	setup := world.GenSetup(gen, p)
	reqs := world.GenRequests(gen, fg, setup, p)
	var all []*world.Req
	for _, l := range reqs {
		all = append(all, l...)
	}
	build := append([]*world.Req{}, all...)
	for _, q := range all {
		if q.Sub != nil {
			build = append(build, q.Sub)
		}
	}
	w := world.Build(setup, build, world.BuildOpts{})

	n := len(reqs)
	cur := make([]int, n)
	started := make([]int64, n)
	fired := make([]bool, n)
	for i := range cur {
		cur[i] = -1
	}
	cfg.OnYield = func(task, site int, now int64) {
		if site == world.SiteReq {
			cur[task]++
			started[task] = now
			fired[task] = false
		}
	}
	cfg.WakeCmd = func(task int, now int64) int {
		k := cur[task]
		if k < 0 || k >= len(reqs[task]) || fired[task] {
			return 0
		}
		if d := reqs[task][k].Deadline; d > 0 && now-started[task] >= d {
			fired[task] = true
			return sched.CmdCancel
		}
		return 0
	}
	cfg.KeepLog = o.Trace
	bodies := make([]func(*sched.Task), n)
	for i := range bodies {
		i := i
		bodies[i] = func(t *sched.Task) {
			for _, q := range reqs[i] {
				t.SetLocal(&q.Local)
				sched.Yield(world.SiteReq)
				w.Serve(q)
			}
			t.SetLocal(nil)
		}
	}
	sr := sched.Run(cfg, bodies)
	res.Steps, res.Ticks, res.Switches = sr.Steps, sr.Ticks, sr.Switches
	res.SchedHash, res.SwitchHash, res.SwitchPairs, res.Sites = sr.SchedHash, sr.SwitchHash, sr.SwitchPairs, sr.SiteHits
	res.Blocked = sr.BlockedHandovers
	res.Requests = len(all)
	res.Cases = len(all)

	viol := func(rule, detail string, shape map[string]string) {
		for _, v := range res.Violations {
			if v.Rule == rule {
				return
			}
		}
		res.Violations = append(res.Violations, eng.Violation{Property: "C03", Rule: rule, Detail: detail, Shape: shape})
	}
	if sr.Deadlock {
		res.Poisoned = true
		viol("liveness.deadlock", "every unfinished task is blocked outside the scheduler", nil)
		return res
	}
	if sr.Capped {
		viol("liveness.step-budget", "the run exceeded its step budget", nil)
	}
	name := func(hid int) string {
		if hid < 0 || hid >= len(w.Sims) {
			return "?"
		}
		h := w.Sims[hid]
		return h.Label + "#" + itoaS(hid)
	}
	for _, q := range all {
		if q.Escaped == "ABORT" {
			continue
		}
		nontrivial := false
		var sig uint64 = 1469598103934665603
		for _, e := range q.Events {
			a := 0
			switch e.K {
			case world.EvEnter:
				a = int(e.A)
			case world.EvExit, world.EvPanicOut, world.EvNextCall, world.EvNextRet, world.EvNextPanic, world.EvSwallow:
				if int(e.H) < len(w.Sims) {
					a = w.Sims[e.H].Pos
				}
			}
			sig = (sig ^ uint64(e.K)<<8 ^ uint64(a)) * 1099511628211
			switch e.K {
			case world.EvNextCall:
				nontrivial = true
				res.Probes["next_calls"]++
			case world.EvCancel:
				nontrivial = true
				if e.A == 0 {
					res.Faults["cancel-async"]++
					switch e.S {
					case "S4":
						res.Probes["cancel_landed_at_loop_top_S4"]++
					case "S5":
						res.Probes["cancel_landed_after_invoke_S5"]++
					case "enter":
						res.Probes["cancel_landed_between_poll_and_handler"]++
					}
				} else {
					res.Faults["cancel-self"]++
				}
			case world.EvRaise:
				nontrivial = true
				res.Faults["panic:"+world.PanicKindNames[e.A]]++
			case world.EvSpyRefuse:
				nontrivial = true
				res.Faults["bad-status"]++
			case world.EvSpyWrite:
				if e.S != "" {
					nontrivial = true
					res.Faults["write-"+e.S]++
				}
			case world.EvSwallow:
				res.Probes["panic_swallowed_by_middleware"]++
			case world.EvEscaped:
				res.Probes["panic_escaped"]++
			}
		}
		if nontrivial {
			res.Sigs = append(res.Sigs, sig)
		}
		full, ok := w.Full[q.Chain]
		if !ok {
			continue
		}
		stopped := false
		for _, e := range q.Events {
			if e.K == world.EvNote && e.S == "stopped-by-before-handler" {
				stopped = true
			}
		}
		if stopped {
			// a Flame.Before handler returned true: nothing of the chain may run
			for _, e := range q.Events {
				if e.K == world.EvEnter {
					viol("before-handler-ignored", "request "+q.Line()+": a Before handler ended the request, yet handler "+name(int(e.H))+" ran\n  trace: "+q.Trace(), nil)
				}
			}
			res.Probes["stopped_by_before_handler"]++
			continue
		}
		for _, f := range Accept(q, full, name) {
			viol(f.Rule, "request "+q.Line()+": "+f.Detail+"\n  trace: "+q.Trace(), f.Shape)
		}
	}
	res.Nontrivial = len(res.Sigs) > 0
	if o.Trace {
		res.Trace = append(res.Trace, "SETUP")
		res.Trace = append(res.Trace, setup.Describe()...)
		for ti, l := range reqs {
			for _, q := range l {
				res.Trace = append(res.Trace, "task"+itoaS(ti)+" "+q.Line()+" chain="+itoaS(q.Chain))
				for _, d := range q.DescribeProgs() {
					res.Trace = append(res.Trace, "    "+d)
				}
				res.Trace = append(res.Trace, "    => "+q.Outcome())
			}
		}
		sl := ""
		for _, s := range sr.Log {
			sl += itoaS(int(s.Task)) + ":" + world.SiteName(int(s.Site)) + " "
		}
		res.Trace = append(res.Trace, "SCHEDULE "+sl)
	}
	return res
}

func itoaS(i int) string { return itoa(i) }
