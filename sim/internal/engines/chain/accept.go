// Package chain is the engine for C03: the handler chain runs in order, each
// handler at most once and none skipped, Next() nests like an onion, and the
// chain advances on its own only while nothing is written and the request
// context is not cancelled.
package chain

import (
	"verif/sim/internal/world"
)

// Finding is one rule failure of the trace acceptor.
type Finding struct {
	Rule   string
	Detail string
	Shape  map[string]string
}

type frame struct {
	hid               int
	idx               int  // index in the full chain
	inNext            bool // a Next() call of this frame is in progress
	nexts             int  // Next() calls issued so far by this frame
	wroteBetweenNexts bool
}

// Accept checks the recorded events of one request against the rules of the
// property statement. chain is the full chain the request runs (simulated
// handlers and built-ins in order). It models nothing of flamego beyond the
// statement: order (R1), onion nesting (R2), automatic advance iff not written
// and not cancelled (R3), explicit Next() (R4), exhausted chain (R5), panics
// unwinding in onion order (R6).
func Accept(q *world.Req, chain []world.Entry, name func(hid int) string) []Finding {
	var out []Finding
	fail := func(rule, detail string, shape map[string]string) {
		if len(out) < 4 {
			out = append(out, Finding{rule, detail, shape})
		}
	}
	idxOf := func(hid int) int {
		for i, e := range chain {
			if e.HID == hid {
				return i
			}
		}
		return -1
	}
	simsBetween := func(a, b int) bool { // simulated handlers in chain[a:b]
		for i := a; i < b && i < len(chain); i++ {
			if chain[i].HID >= 0 {
				return true
			}
		}
		return false
	}
	// startableBetween ignores handlers whose dependencies cannot be resolved: they never log a
	// start (the framework panics instead, and a built-in Recovery may answer that invisibly).
	startableBetween := func(a, b int) bool {
		for i := a; i < b && i < len(chain); i++ {
			if chain[i].HID >= 0 && chain[i].Shape != world.ShMissing {
				return true
			}
		}
		return false
	}
	recoveryBetween := func(a, b int) bool {
		for i := a; i < b && i < len(chain); i++ {
			if chain[i].Kind == world.HkRecovery {
				return true
			}
		}
		return false
	}
	var stack []frame
	pos := 0 // chain[:pos] has been started or passed
	written, cancelVisible, cancelAtEnter := false, false, false
	const (
		trInit    = iota
		trAuto    // the run loop is about to decide whether to advance on its own
		trNext    // a Next() call was just issued by the top frame
		trRunning // a handler is running its own code
	)
	trigger := trInit
	unwinding := false
	panicIdx := -1
	skipContinueCheck := false
	top := func() *frame {
		if len(stack) == 0 {
			return nil
		}
		return &stack[len(stack)-1]
	}
	exhausted := func() bool { return !simsBetween(pos, len(chain)) }
	// stopAllowed: the run loop that was deciding returned without starting
	// the next handler.
	checkStop := func(where string) {
		if skipContinueCheck {
			skipContinueCheck = false
			return
		}
		switch trigger {
		case trAuto, trInit:
			if !written && !cancelVisible && !exhausted() {
				fail("R3-must-continue", "the chain stopped ("+where+") although nothing was written, the context is not cancelled and handlers remain: next would be "+name(nextSim(chain, pos)), nil)
			}
		case trNext:
			if !written && !cancelVisible && !exhausted() {
				fail("R4-next-did-nothing", "Next() returned without running anything ("+where+") although nothing was written, the context is not cancelled and handlers remain", nil)
			}
		}
	}
	// frameworkPanic accounts for a panic nobody raised through the simulator. The one legitimate
	// source between two handlers is the failed dependency resolution of the next handler (it
	// asks for a type nobody mapped): that handler counts as started — and may not be tried again.
	lastRefuse := false
	frameworkPanic := func() {
		if lastRefuse {
			return // the underlying writer refused a status while a return value was rendered
		}
		for i := pos; i < len(chain); i++ {
			if chain[i].HID < 0 {
				continue
			}
			if chain[i].Shape == world.ShMissing {
				pos = i + 1
				panicIdx = i
				return
			}
			break
		}
		fail("R6-unexplained-panic", "the framework panicked between handlers although the next handler ("+name(nextSim(chain, pos))+") can be invoked; a handler whose dependencies cannot be resolved is tried at most once", nil)
	}
	rhActive, rhDue := false, -1
	// The default ReturnHandler renders non-zero return values by writing them: a handler that
	// returned some while nothing had been written yet is followed by a write (an accepted or
	// refused status at the underlying writer) before anything else happens in the chain.
	renderDue, substituted := -1, false
	shapeOf := func(hid int) int {
		for _, c := range chain {
			if c.HID == hid {
				return c.Shape
			}
		}
		return -1
	}
	for ei, e := range q.Events {
		if e.K == world.EvNote && e.S == "writer-substituted" {
			substituted = true
		}
		if renderDue >= 0 && e.K != world.EvCancel && e.K != world.EvNote && e.K != world.EvBefore && e.K != world.EvRaise {
			if e.K != world.EvSpyHeader && e.K != world.EvSpyRefuse && e.K != world.EvSpyHeader2 && e.K != world.EvSpyWrite && e.K != world.EvPanicOut && e.K != world.EvNextPanic {
				fail("R3-return-not-rendered", "handler "+name(renderDue)+" returned a non-zero value while nothing had been written, but nothing was written to render it before the chain went on", nil)
			}
			renderDue = -1
		}
		// R3 "its return values, if any, having been rendered first": once a request-scoped
		// ReturnHandler is mapped, it is called right after a value-returning handler returned.
		if rhDue >= 0 && e.K != world.EvCancel && e.K != world.EvNote {
			if e.K != world.EvRHCall {
				fail("R3-return-not-rendered", "handler "+name(rhDue)+" returned values but the request's ReturnHandler was not called to render them before the chain went on", nil)
			}
			rhDue = -1
		}
		switch e.K {
		case world.EvRHMapped:
			rhActive = true
		case world.EvExit:
			if rhActive && ei > 0 && q.Events[ei-1].K == world.EvRet && q.Events[ei-1].H == e.H {
				rhDue = int(e.H)
			}
			if !rhActive && !substituted && !written && ei > 0 && q.Events[ei-1].K == world.EvRet && q.Events[ei-1].H == e.H {
				if r := q.Events[ei-1]; len(r.S) == 2 && world.RetRenders(shapeOf(int(e.H)), int(r.S[1]-'0')) {
					renderDue = int(e.H)
				}
			}
		}
		if ei > 0 {
			switch p := q.Events[ei-1].K; p {
			case world.EvSpyRefuse:
				lastRefuse = true
			case world.EvEnter, world.EvNextRet, world.EvSwallow, world.EvExit:
				lastRefuse = false
			}
		}
		switch e.K {
		case world.EvSpyHeader, world.EvAttempt:
			// "written to the response": the underlying writer got a status, or a handler wrote
			// through the writer it was given (a write the framework swallows still counts)
			written = true
			if f := top(); f != nil {
				f.wroteBetweenNexts = true
			}
		case world.EvCancel:
			if e.A == 0 && e.S == world.SiteName(world.SiteEnter) {
				cancelAtEnter = true // lands after the poll that admitted the handler now starting
			} else {
				cancelVisible = true
			}
		case world.EvEnter:
			hid := int(e.H)
			idx := idxOf(hid)
			if e.S != "" && e.S[0] == 't' && e.S != "tok-"+q.Name {
				fail("cross-request", "handler "+name(hid)+" of "+q.Name+" received "+e.S, nil)
			}
			if idx < 0 {
				fail("R1-foreign", "handler "+name(hid)+" is not part of the chain of this request", nil)
				continue
			}
			if idx < pos {
				fail("R1-twice", "handler "+name(hid)+" started again or out of order (chain position "+itoa(idx)+" after "+itoa(pos-1)+")", nil)
			} else if startableBetween(pos, idx) {
				sh := map[string]string{}
				if f := top(); f != nil && f.nexts >= 2 {
					sh["trigger"] = "repeated-next"
					if f.wroteBetweenNexts || written {
						sh["written-before"] = "yes"
					}
				}
				fail("R1-gap", "handler "+name(hid)+" started although "+name(nextSim(chain, pos))+" before it never did", sh)
			}
			if unwinding {
				fail("R6-start-while-unwinding", "handler "+name(hid)+" started while a panic was propagating", nil)
				unwinding = false
			}
			if trigger == trAuto || trigger == trInit {
				if written {
					fail("R3-advance-after-write", "the chain advanced on its own to "+name(hid)+" although the response had been written", nil)
				} else if cancelVisible {
					fail("R3-advance-after-cancel", "the chain advanced on its own to "+name(hid)+" although the request context had been cancelled", nil)
				}
			}
			if cancelAtEnter {
				cancelVisible, cancelAtEnter = true, false
			}
			stack = append(stack, frame{hid: hid, idx: idx})
			if idx+1 > pos {
				pos = idx + 1
			}
			trigger = trRunning
			skipContinueCheck = false
		case world.EvExit:
			f := top()
			if f == nil || f.hid != int(e.H) {
				fail("R2-onion", "handler "+name(int(e.H))+" returned while it was not the innermost running handler", nil)
				stack = popHID(stack, int(e.H))
			} else {
				stack = stack[:len(stack)-1]
			}
			trigger = trAuto
			skipContinueCheck = false
		case world.EvPanicOut:
			f := top()
			if f == nil || f.hid != int(e.H) {
				fail("R2-onion", "handler "+name(int(e.H))+" was left by a panic while it was not the innermost running handler", nil)
				stack = popHID(stack, int(e.H))
			} else {
				if !unwinding {
					panicIdx = f.idx
				}
				stack = stack[:len(stack)-1]
			}
			unwinding = true
		case world.EvNextCall:
			f := top()
			if f == nil || f.hid != int(e.H) {
				fail("R2-onion", "Next() called by "+name(int(e.H))+" which is not the innermost running handler", nil)
				continue
			}
			if f.nexts > 0 && !f.wroteBetweenNexts {
				// nothing to note; kept for the shape of R1-gap reports
			}
			f.inNext = true
			f.nexts++
			trigger = trNext
		case world.EvNextRet, world.EvNextPanic, world.EvSwallow:
			f := top()
			if f == nil || f.hid != int(e.H) {
				fail("R2-onion", "Next() of "+name(int(e.H))+" returned while handlers started inside it were still running", nil)
				continue
			}
			switch e.K {
			case world.EvNextPanic:
				if !unwinding {
					// a panic raised by the framework itself between handlers (a failed dependency
					// resolution, a refused status while rendering a return value) — it starts an
					// unwinding at the last handler that was started
					unwinding = true
					panicIdx = pos - 1
					frameworkPanic()
				}
				f.inNext = false
			case world.EvSwallow:
				if !unwinding {
					frameworkPanic() // the handler recovered a panic nobody raised through the simulator
				}
				unwinding = false
				skipContinueCheck = true
			case world.EvNextRet:
				if unwinding {
					// a built-in Recovery between this frame and the panicking handler contained it
					if !recoveryBetween(f.idx, panicIdx+1) && panicIdx >= 0 {
						fail("R6-panic-vanished", "Next() of "+name(f.hid)+" returned normally although a handler inside it panicked and nothing in between recovers", nil)
					}
					unwinding = false
					skipContinueCheck = true
				}
				if f.inNext {
					checkStop("inside Next() of " + name(f.hid))
				}
				f.inNext = false
				trigger = trRunning
			}
		case world.EvEscaped:
			if !unwinding {
				frameworkPanic()
			}
			unwinding = false
			skipContinueCheck = true
		}
	}
	if renderDue >= 0 {
		fail("R3-return-not-rendered", "handler "+name(renderDue)+" returned a non-zero value while nothing had been written, but nothing was ever written to render it", nil)
	}
	if rhDue >= 0 {
		fail("R3-return-not-rendered", "handler "+name(rhDue)+" returned values but the request's ReturnHandler was never called to render them", nil)
	}
	if len(stack) != 0 && q.Escaped == "" {
		fail("R2-onion", "ServeHTTP returned while "+name(stack[len(stack)-1].hid)+" had not finished", nil)
	}
	if q.Escaped == "" {
		if unwinding {
			if !recoveryBetween(0, panicIdx+1) {
				fail("R6-panic-vanished", "ServeHTTP returned normally although a handler panicked and nothing recovers it", nil)
			}
		} else {
			checkStop("end of ServeHTTP")
		}
	}
	return out
}

func nextSim(chain []world.Entry, pos int) int {
	for i := pos; i < len(chain); i++ {
		if chain[i].HID >= 0 {
			return chain[i].HID
		}
	}
	return -1
}

func popHID(st []frame, hid int) []frame {
	for i := len(st) - 1; i >= 0; i-- {
		if st[i].hid == hid {
			return st[:i]
		}
	}
	return st
}

func itoa(i int) string {
	if i < 0 {
		return "-" + itoa(-i)
	}
	if i < 10 {
		return string(rune('0' + i))
	}
	return itoa(i/10) + string(rune('0'+i%10))
}
