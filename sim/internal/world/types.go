// Package world builds flamego instances and requests from the tape, supplies
// the simulator-owned stand-ins for everything flamego meets at run time
// (handlers, the underlying http.ResponseWriter, the request and its context,
// the log sink, the file system) and records what happened.
package world

import (
	"net/http"
	"os"
	"sync"

	"verif/sim/internal/sched"
)

// Seam yield sites.
const (
	SiteSpyWH    = sched.SeamBase + iota // underlying WriteHeader
	SiteSpyWrite                         // underlying Write
	SiteSpyFlush                         // underlying Flush
	SiteAct                              // before a handler action
	SiteEnter                            // handler entry
	SiteExit                             // handler exit
	SiteReq                              // task starts serving a request
	SiteBefore                           // a BeforeFunc runs
	SiteFS                               // file system call
	SiteToken                            // token middleware
	SiteBeforeH                          // Flame.Before handler
	SiteObs                              // observer operation (rw engine)
	SiteMax
)

// AutoMode is set when the worker runs a build of flamego instrumented by cmd/autoyield (a yield
// before every statement). Engines switch planned cancels off in that mode: their request-local
// coordinates count yields, and the number of instrumented yields a request passes may
// legitimately depend on lazily initialised state.
var AutoMode = os.Getenv("SIM_AUTO") == "1"

// StepCap scales a per-run step budget: instrumented builds yield before every statement.
func StepCap(n int) int {
	if AutoMode {
		return n * 25
	}
	return n
}

// SiteName names a yield site for reports.
func SiteName(s int) string {
	switch s {
	case -1:
		return "done"
	case 0:
		return "start"
	case 1, 2, 3, 4, 5, 6:
		return "S" + string(rune('0'+s))
	case SiteSpyWH:
		return "spy.WriteHeader"
	case SiteSpyWrite:
		return "spy.Write"
	case SiteSpyFlush:
		return "spy.Flush"
	case SiteAct:
		return "action"
	case SiteEnter:
		return "enter"
	case SiteExit:
		return "exit"
	case SiteReq:
		return "request"
	case SiteBefore:
		return "beforeFunc"
	case SiteFS:
		return "fs"
	case SiteToken:
		return "token"
	case SiteBeforeH:
		return "beforeHandler"
	case SiteObs:
		return "observer"
	}
	if s >= 100 {
		return "auto"
	}
	return "site?"
}

// Request-scoped and application-scoped injected types.
type (
	// Token is mapped into every request's context by the token middleware.
	Token string
	// Extra is mapped only by some requests: its absence must be observable.
	Extra string
	// Missing is never mapped: asking for it is a failed dependency resolution.
	Missing struct{ X int }
	// AppSvc is mapped once on the Flame instance during set-up.
	AppSvc struct{ Name string }
)

// Namer is a narrow interface that *AppSvc implements but that nobody maps directly: resolving
// it walks the injector's implementor search, in request scope first, then at application level.
type Namer interface{ SvcName() string }

// SvcName implements Namer.
func (s *AppSvc) SvcName() string { return s.Name }

// Event kinds recorded per request.
const (
	EvEnter      = iota + 1 // handler started; H=hid A=pos S=token seen
	EvExit                  // handler returned normally
	EvPanicOut              // handler left by a panic (its own or one passing through)
	EvNextCall              // handler calls Next()
	EvNextRet               // Next() returned normally
	EvNextPanic             // Next() was left by a panic
	EvSwallow               // handler recovered a panic that came out of Next()
	EvSpyHeader             // underlying writer got a status; A=code, S="implicit" when a body write came first
	EvSpyHeader2            // underlying writer got a further status (superfluous); A=code
	EvSpyWrite              // underlying writer got body bytes; A=n accepted, S=fault
	EvSpyFlush              // underlying writer flushed
	EvSpyRefuse             // underlying writer refused a status outside 100..999 by panicking; A=code
	EvCancel                // request context cancelled; A=0 async, 1 by handler
	EvNote                  // free observation; S=text
	EvBefore                // a BeforeFunc ran; A=id, S=status/written seen
	EvRaise                 // handler raises a panic; A=kind
	EvRet                   // handler returns a value to be rendered; A=kind S=value
	EvFS                    // file-system call; S=op+path, A=result class
	EvEscaped               // a panic escaped ServeHTTP
	EvRecEnter              // the built-in Recovery middleware was invoked (recorded by a wrapper around it)
	EvRecExit               // ... and returned
	EvRHMapped              // a request-scoped ReturnHandler was mapped
	EvRHCall                // ... and was called to render a handler's return values
	EvAttempt               // a handler is about to write to the response through the writer it was given; A=op
)

// Ev is one recorded event.
type Ev struct {
	K uint8
	H int16
	A int32
	S string
}

var evNames = map[uint8]string{
	EvEnter: "enter", EvExit: "exit", EvPanicOut: "panic-out", EvNextCall: "next(", EvNextRet: ")next", EvNextPanic: ")next!panic",
	EvSwallow: "swallow", EvSpyHeader: "W.status", EvSpyHeader2: "W.status-again", EvSpyWrite: "W.body", EvSpyFlush: "W.flush",
	EvSpyRefuse: "W.refuse", EvCancel: "cancel", EvNote: "note", EvBefore: "before", EvRaise: "raise", EvRet: "ret", EvFS: "fs", EvEscaped: "ESCAPED", EvAttempt: "attempt", EvRHMapped: "rh-mapped", EvRHCall: "rh-call", EvRecEnter: "Recovery(", EvRecExit: ")Recovery",
}

func itoa(i int) string {
	if i == 0 {
		return "0"
	}
	neg := i < 0
	if neg {
		i = -i
	}
	var b [20]byte
	p := len(b)
	for i > 0 {
		p--
		b[p] = byte('0' + i%10)
		i /= 10
	}
	if neg {
		p--
		b[p] = '-'
	}
	return string(b[p:])
}

// String renders an event without fmt (usable on task paths).
func (e Ev) String() string {
	s := evNames[e.K]
	if e.K == EvEnter || e.K == EvExit || e.K == EvPanicOut || e.K == EvNextCall || e.K == EvNextRet || e.K == EvNextPanic || e.K == EvSwallow || e.K == EvRaise || e.K == EvRet {
		s += "#" + itoa(int(e.H))
	}
	if e.A != 0 || e.K == EvSpyWrite || e.K == EvSpyHeader {
		s += ":" + itoa(int(e.A))
	}
	if e.S != "" {
		s += "[" + e.S + "]"
	}
	return s
}

// Program operations of a simulated handler.
const (
	OpYield       = iota
	OpWriteHeader // A=code
	OpWrite       // A=length
	OpFlush
	OpNext
	OpNextSwallow // Next() inside a deferred recover that swallows
	OpCancel      // cancel the request context
	OpMapExtra    // c.Map(Extra(..))
	OpSeeExtra    // note whether an Extra is visible
	OpPanic       // A=kind
	OpEcho        // write the echo body
	OpMark        // store a marker in Params()
	OpCheckMark   // note whether the marker is there
	OpSetHeader   // set a response header
	OpBefore      // register a BeforeFunc
	OpRender      // A=kind (needs Render)
	OpRedirect
	OpStatus       // note Status()/Written()/Size()
	OpCookie       // SetCookie
	OpSeeSvc       // note the application service seen through DI
	OpSeeHeaders   // note the response header keys present so far
	OpMapIface     // c.MapTo(value, (*Labeler)(nil)): a request-scoped interface mapping
	OpSeeIface     // note the Labeler visible through DI
	OpInvoke       // c.Invoke(func(Token) ...) from inside the handler: a nested resolution in request scope
	OpApply        // c.Apply(&struct{... `inject`}) in request scope
	OpSeeNamer     // resolve the Namer interface (implemented only by the application service) and note it
	OpHTTPError    // answer with http.Error through the handed-out writer
	OpHijack       // try to hijack the connection through the handed-out writer (the spy does not support it)
	OpCopy         // io.Copy(w, plain reader): takes the writer's ReadFrom fast path if it has one
	OpNestedServe  // dispatch a sub-request with another method through the same instance, writing into this request's writer
	OpSetCT        // set a Content-Type before anything is written
	OpSetCL        // announce a Content-Length the handler may never honour
	OpExpireCtx    // install a derived context whose deadline has already passed (context.DeadlineExceeded, no timer)
	OpMapOwnWriter // map an independent flamego.ResponseWriter (a buffering substitute) as the http.ResponseWriter service
	OpSeePath      // note the request path and method the handler sees
	OpSeeBody      // read the request body through Request().Body() and note it
	OpMapRH        // map a request-scoped ReturnHandler that marks what it renders
	OpMutQuery     // fetch QueryStrings and overwrite the returned slice (must not reach anybody else)
	OpReplaceCtx   // install a derived cancellable context as the request's context (what a timeout middleware does); later cancels hit that one
	opMax
)

// NumOps is the number of program operations (length of the op weight tables).
const NumOps = int(opMax)

// Act is one step of a handler program.
type Act struct {
	Op uint8
	A  int32
}

// Ret describes what a handler with results returns.
type Ret struct {
	Kind int // 0 zero value(s), 1 non-empty value, 2 error
	Code int // status for (int, ...) shapes
}

// WFault is a planned fault of the underlying writer.
type WFault struct {
	At   int // index of the Write call (0-based)
	Kind int // 1 short write with error, 2 error without bytes, 3 short write without error, 4 the At-th WriteHeader call panics whatever its code
	Keep int // bytes accepted for a short write
}

// reqSink collects what is logged through a request's own logger.
//
// It is application state (the sink of a logger), not framework state, and the logging library
// lets two loggers derived from one parent write to the parent's writer under different
// mutexes (DESIGN.md D3) - which a timer callback logging next to its request's handler does.
// The sink therefore keeps out of the race detector's sight entirely: a buffer grown and filled by
// plain loops in norace functions (append would go through runtime.growslice, which reports the
// access on the caller's behalf).
type reqSink struct {
	buf []byte
	n   int
}

//go:norace
func (s *reqSink) Write(p []byte) (int, error) {
	if s.n+len(p) > len(s.buf) {
		nb := make([]byte, 2*len(s.buf)+len(p)+256)
		for i := 0; i < s.n; i++ {
			nb[i] = s.buf[i]
		}
		s.buf = nb
	}
	for i := 0; i < len(p); i++ {
		s.buf[s.n] = p[i]
		s.n++
	}
	return len(p), nil
}

//go:norace
func (s *reqSink) reset() { s.n = 0 }

//go:norace
func (s *reqSink) text() string {
	out := make([]byte, s.n)
	for i := range out {
		out[i] = s.buf[i]
	}
	return string(out)
}

// routedSink is what a request-scoped logger is given to write to. The logging library keeps a
// process-wide registry keyed by every writer it has ever been handed, so a writer per request
// would pin every request (and everything it references) for the life of the worker process:
// workers grew by ~15 MB/s until the machine ran out of memory in the thorough tier. The sinks
// are therefore few, long-lived and keyed by request name; each forwards to the request that
// claimed it last.
type routedSink struct{ q *Req }

//go:norace
func (s *routedSink) Write(p []byte) (int, error) {
	if s.q != nil {
		return s.q.logSink.Write(p)
	}
	return len(p), nil
}

var (
	sinkMu sync.Mutex
	sinks  = map[string]*routedSink{}
)

//go:norace
func sinkFor(q *Req) *routedSink {
	sinkMu.Lock()
	defer sinkMu.Unlock()
	s := sinks[q.Name]
	if s == nil {
		s = &routedSink{}
		sinks[q.Name] = s
	}
	s.q = q
	return s
}

// Labeler is an interface type mapped (sometimes) in request scope with MapTo.
type Labeler interface{ Label() string }

type reqLabel string

func (l reqLabel) Label() string { return string(l) }

// Req is one simulated request together with everything recorded about it.
type Req struct {
	sched.Local
	ID            int
	Name          string
	Method        string
	Path          string
	Query         string
	Hdr           [][2]string
	Progs         [][]Act // by chain position
	Rets          []Ret   // by chain position
	WPlan         []WFault
	FSPlan        []FSFault
	FSMut         []FSMutation
	ETagOf        *Req // take If-None-Match from the ETag this earlier request of the same task was answered with
	Sub           *Req // record of the sub-request a handler may dispatch through the same instance (nil: none)
	Flusher       bool
	Hijacker      int   // underlying writer facet: 0 no http.Hijacker, 1 a Hijacker whose Hijack fails, 2 one whose Hijack succeeds
	ReaderFrom    bool  // underlying writer facet: io.ReaderFrom (as net/http's response has)
	Deadline      int64 // virtual ticks after start; 0 none
	Staged        bool  // the client has announced a large body, sent its head and waits for the server's verdict before sending the rest
	Think         int64 // open workload: virtual ticks the task sleeps before it issues this request; 0 none
	CtxErr        int   // what the request context reports once cancelled: 0 Canceled, 1 DeadlineExceeded, 2 a custom error, 3 Canceled although it carries a deadline far ahead
	PlannedCancel int   // CancelAt as generated (Local.CancelAt is consumed during the run)
	Tag           string
	Body          string // request body (empty: none)
	Host          string // Host of the request (empty: \"sim\")
	StartStamp    int64  // global event stamp when the request started being served
	EndStamp      int64  // global event stamp when ServeHTTP returned
	Chain         int    // chain the request is meant to run (route index, -1 not-found), -99 unknown

	// Recorded.
	W             *Spy
	Events        []Ev
	Escaped       string
	Served        bool
	HTTP          *http.Request
	started       int64
	AsyncCancelAt int // CIdx at which an asynchronous cancel landed; -1: none
	rawCancel     func()
	substituted   bool    // a handler mapped its own writer as the http.ResponseWriter service
	logSink       reqSink // per-request log sink (set-ups with a request-scoped logger)
	fsCalls       int
}

//go:norace
func (r *Req) ev(k uint8, h int, a int, s string) {
	r.Events = append(r.Events, Ev{K: k, H: int16(h), A: int32(a), S: s})
}

// Note records a free-text observation.
func (r *Req) Note(s string) { r.ev(EvNote, 0, 0, s) }
