package world

import (
	"bufio"
	"errors"
	"io"
	"net"
	"net/http"

	"verif/sim/internal/sched"
)

// Spy is the simulator's stand-in for the http.ResponseWriter that net/http
// would hand to Flame.ServeHTTP. Like net/http's (and httptest's) writer it
// refuses a status outside 100..999 by panicking, takes the first status only,
// and treats a body write without a status as an implicit 200. On top of that
// it injects short writes and write errors according to the request's plan and
// records every call.
type Spy struct {
	req         *Req
	H           http.Header
	Sent        http.Header // snapshot of H when the status went out
	Code        int         // first status accepted (0: none yet)
	Implicit    bool        // the status was implied by a body write / flush
	Body        []byte
	NStatus     int // number of statuses accepted (superfluous ones included)
	NWrite      int
	NFlush      int
	NHijack     int
	NWH         int  // WriteHeader calls with a valid code so far
	HijackFails bool // the underlying connection cannot be taken over: Hijack returns an error
	CountOnly   bool // do not store body bytes, only count them (bulk histories)
	Count       int64
	plan        []WFault
	refuseTo    *Req
}

// ErrInjected is the error returned by injected write faults.
var ErrInjected = errors.New("sim: injected write error")

func newSpy(r *Req) *Spy { return &Spy{req: r, H: http.Header{}, plan: r.WPlan} }

// NewSpy returns a spy that records into r.
func NewSpy(r *Req) *Spy { return newSpy(r) }

func (s *Spy) Header() http.Header { return s.H }

func (s *Spy) sendStatus(code int, implicit bool) {
	s.NStatus++
	if s.Code == 0 {
		s.Code = code
		s.Implicit = implicit
		s.Sent = s.H.Clone()
		n := ""
		if implicit {
			n = "implicit"
		}
		s.req.ev(EvSpyHeader, 0, code, n)
		return
	}
	s.req.ev(EvSpyHeader2, 0, code, "")
}

func (s *Spy) WriteHeader(code int) {
	sched.Yield(SiteSpyWH)
	if code < 100 || code > 999 {
		s.req.ev(EvSpyRefuse, 0, code, "")
		if s.refuseTo != nil {
			s.refuseTo.ev(EvSpyRefuse, 0, code, "substitute")
		}
		panic("invalid WriteHeader code " + itoa(code))
	}
	nth := s.NWH
	s.NWH++
	for _, f := range s.plan {
		if f.Kind == 4 && f.At == nth { // the writer underneath fails this call outright (an HTTP/2 stream that is gone, a broken middleware writer)
			s.req.ev(EvSpyRefuse, 0, code, "underlying-failure")
			panic("underlying writer: WriteHeader failed")
		}
	}
	s.sendStatus(code, false)
}

func (s *Spy) Write(b []byte) (int, error) {
	sched.Yield(SiteSpyWrite)
	if s.Code == 0 {
		s.sendStatus(http.StatusOK, true)
	}
	idx := s.NWrite
	s.NWrite++
	for _, f := range s.plan {
		if f.At == idx {
			switch f.Kind {
			case 1:
				k := f.Keep
				if k > len(b) {
					k = len(b)
				}
				s.Body = append(s.Body, b[:k]...)
				s.req.ev(EvSpyWrite, 0, k, "short")
				return k, ErrInjected
			case 2:
				s.req.ev(EvSpyWrite, 0, 0, "error")
				return 0, ErrInjected
			case 3: // short write reported without an error
				k := f.Keep
				if k > len(b) {
					k = len(b)
				}
				s.Body = append(s.Body, b[:k]...)
				s.req.ev(EvSpyWrite, 0, k, "short-no-error")
				return k, nil
			}
		}
	}
	if s.CountOnly {
		s.Count += int64(len(b))
		return len(b), nil
	}
	s.Body = append(s.Body, b...)
	s.req.ev(EvSpyWrite, 0, len(b), "")
	return len(b), nil
}

func (s *Spy) flush() {
	sched.Yield(SiteSpyFlush)
	if s.Code == 0 {
		s.sendStatus(http.StatusOK, true)
	}
	s.NFlush++
	s.req.ev(EvSpyFlush, 0, 0, "")
}

// SpyF is a Spy that also implements http.Flusher.
type SpyF struct{ *Spy }

func (s SpyF) Flush() { s.flush() }

// FlushError is what net/http's own response offers to http.ResponseController next to Flush.
func (s SpyF) FlushError() error   { s.flush(); return nil }
func (s SpyFR) FlushError() error  { s.flush(); return nil }
func (s SpyFH) FlushError() error  { s.flush(); return nil }
func (s SpyFRH) FlushError() error { s.flush(); return nil }

// Writer returns the http.ResponseWriter facet the request asked for.
func (s *Spy) Writer(flusher bool) http.ResponseWriter {
	if flusher {
		return SpyF{s}
	}
	return s
}

// readFrom is io.ReaderFrom as net/http's response implements it: the status is
// committed (implicit 200) and the reader is drained into the body; write faults
// apply per chunk.
func (s *Spy) readFrom(r io.Reader) (int64, error) {
	var total int64
	buf := make([]byte, 512)
	for {
		n, err := r.Read(buf)
		if n > 0 {
			m, werr := s.Write(buf[:n])
			total += int64(m)
			if werr != nil {
				return total, werr
			}
		}
		if err == io.EOF {
			if total == 0 && s.Code == 0 {
				sched.Yield(SiteSpyWrite)
				s.sendStatus(http.StatusOK, true)
			}
			return total, nil
		}
		if err != nil {
			return total, err
		}
	}
}

// hijack is http.Hijacker: the spy hands out nothing and notes the call.
func (s *Spy) hijack() (net.Conn, *bufio.ReadWriter, error) {
	sched.Yield(SiteSpyFlush)
	s.NHijack++
	if s.HijackFails {
		s.req.ev(EvNote, 0, 0, "underlying.Hijack:refused")
		return nil, nil, ErrInjected
	}
	s.req.ev(EvNote, 0, 0, "underlying.Hijack")
	return nil, nil, nil
}

// Facet types: every combination of Flusher / ReaderFrom / Hijacker.
type (
	SpyR   struct{ *Spy }
	SpyH   struct{ *Spy }
	SpyFR  struct{ *Spy }
	SpyFH  struct{ *Spy }
	SpyRH  struct{ *Spy }
	SpyFRH struct{ *Spy }
)

func (s SpyR) ReadFrom(r io.Reader) (int64, error)   { return s.readFrom(r) }
func (s SpyFR) ReadFrom(r io.Reader) (int64, error)  { return s.readFrom(r) }
func (s SpyRH) ReadFrom(r io.Reader) (int64, error)  { return s.readFrom(r) }
func (s SpyFRH) ReadFrom(r io.Reader) (int64, error) { return s.readFrom(r) }
func (s SpyFR) Flush()                               { s.flush() }
func (s SpyFH) Flush()                               { s.flush() }
func (s SpyFRH) Flush()                              { s.flush() }
func (s SpyH) Hijack() (net.Conn, *bufio.ReadWriter, error) {
	return s.hijack()
}
func (s SpyFH) Hijack() (net.Conn, *bufio.ReadWriter, error) {
	return s.hijack()
}
func (s SpyRH) Hijack() (net.Conn, *bufio.ReadWriter, error) {
	return s.hijack()
}
func (s SpyFRH) Hijack() (net.Conn, *bufio.ReadWriter, error) {
	return s.hijack()
}

// WriterFacets returns the underlying writer with the requested optional interfaces.
func (s *Spy) WriterFacets(flusher, readerFrom, hijacker bool) http.ResponseWriter {
	switch {
	case flusher && readerFrom && hijacker:
		return SpyFRH{s}
	case flusher && readerFrom:
		return SpyFR{s}
	case flusher && hijacker:
		return SpyFH{s}
	case readerFrom && hijacker:
		return SpyRH{s}
	case flusher:
		return SpyF{s}
	case readerFrom:
		return SpyR{s}
	case hijacker:
		return SpyH{s}
	}
	return s
}

// Sink is the stateless log sink handed to NewWithLogger.
type Sink struct{}

//go:norace
func (Sink) Write(b []byte) (int, error) { return len(b), nil }

// PeekCode reads the status the spy holds, from any task, without the race
// detector treating the simulator's own bookkeeping as shared framework state.
//
//go:norace
func (s *Spy) PeekCode() int { return s.Code }

// PeekBody returns the number of body bytes the spy has accepted.
//
//go:norace
func (s *Spy) PeekBody() int { return len(s.Body) }
