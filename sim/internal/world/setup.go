package world

import (
	"net/http"
	"strings"

	"verif/sim/internal/tape"
)

// Handler kinds in a set-up program.
const (
	HkSim = iota
	HkLogger
	HkRecovery
	HkRenderer
	HkStatic
	HkToken
	HkReqLogger       // maps a request-scoped *log.Logger with its own sink (placed in front of Logger)
	HkUpstreamHeaders // an earlier middleware that pre-sets response headers (Content-Type, X-Upstream) for whoever answers
)

// HSpec is one handler of the set-up program.
type HSpec struct {
	Kind  int
	Shape int
}

// RouteSpec is one route registration.
type RouteSpec struct {
	Method   string // "GET", "POST", "*", "GET,POST", "COMBO"
	Pat      int
	Pattern  string // local pattern (without group prefixes)
	Full     string // full pattern (with group prefixes), computed
	Name     string
	Headers  []string
	Hs       []HSpec
	Inst     []string // request paths that this route is meant to admit (full)
	Near     []string // near misses (full)
	AutoHead bool     // AutoHead is switched to this value right before the route is registered
	Index    int
}

// GroupSpec is one Group() call.
type GroupSpec struct {
	Path  string
	Hs    []HSpec
	Nodes []Node
}

// Node is a route or a group, in registration order.
type Node struct {
	Route *RouteSpec
	Group *GroupSpec
}

// StaticSpec configures flamego.Static in the chain.
type StaticSpec struct {
	Prefix        string
	Index         string
	ETag          bool
	Expires       bool
	CacheControl  bool
	Logging       bool
	UseDirectory  bool // pass StaticOptions.Directory instead of FileSystem
	DefaultDir    bool // pass neither: the default directory "public" below the working directory
	AlsoDirectory bool // with a FileSystem: set Directory as well (to a directory outside the tree); FileSystem must win
}

// Setup is the whole set-up program of one flamego instance.
type Setup struct {
	Env           int // 0 dev, 1 prod, 2 test
	Mw            []HSpec
	Batches       []int // sizes of the Use() calls
	Nodes         []Node
	NotFound      []HSpec // nil: flamego's default
	Action        *HSpec
	AutoHead      bool
	Befores       int
	BeforeStop    bool // one Flame.Before handler ends requests that carry X-Stop (returns true)
	Static        *StaticSpec
	Svc           bool
	FinalEcho     bool
	Wrapper       bool         // a HandlerWrapper (identity) is installed before the routes are registered
	WrapperRec    bool         // ... and it is not the identity: every call through a wrapped handler leaves a note in the request's record
	NestedRoute   bool         // a plain route /__nested (GET and POST) that writes; handlers may dispatch sub-requests to it
	LateMw        int          // this many of the trailing application middleware are added with Use() only after the routes exist
	ViaHandlers   bool         // the middleware stack is installed with Handlers() (replacing a throw-away stack) instead of Use()
	NotFoundTwice bool         // NotFound() is called with a throw-away handler first
	SubgroupFirst bool         // inside a group, the nested group is registered before the group's own routes
	EnvLate       bool         // the environment is switched to Env only after set-up (middleware constructed under another one)
	BogusEnv      bool         // after the environment is set, SetEnv is called once more with an invalid value (which must be ignored)
	Routes        []*RouteSpec // flattened, in registration order
}

// Pat is a route pattern with request paths that instantiate or nearly miss it.
type Pat struct {
	P    string
	Inst []string
	Near []string
}

// RichPatterns covers every route kind the properties name.
var RichPatterns = []Pat{
	{"/", []string{"/"}, nil},
	{"/static", []string{"/static"}, []string{"/static/", "//static", "/Static"}},
	{"/static/deep/path", []string{"/static/deep/path"}, []string{"/static/deep", "/static/deep/path/x"}},
	{"/opt/?tail", []string{"/opt", "/opt/tail"}, []string{"/opt/other"}},
	{"/u/{name}", []string{"/u/alice", "/u/%41lice", "/u/a%2Fb", "/u/bob"}, []string{"/u/", "/u"}},
	{"/u/{name}/posts/{id: /[0-9]+/}", []string{"/u/bob/posts/12", "/u/al/posts/007"}, []string{"/u/bob/posts/x", "/u/bob/posts/"}},
	{"/r/{a: /[a-z]+/}-{b: /[0-9]+/}", []string{"/r/ab-12", "/r/z-0"}, []string{"/r/ab-cd", "/r/-1"}},
	{"/f/{**: **}", []string{"/f/a/b/c", "/f/x", "/f/"}, []string{"/f"}},
	{"/g/{p: **, capture: 2}/end", []string{"/g/a/b/end", "/g/a/end"}, []string{"/g/a/b/c/end", "/g/end"}},
	{"/o/{x}/?{y}", []string{"/o/1", "/o/1/2"}, []string{"/o/1/2/3"}},
	{"/m/{**}/tail", []string{"/m/a/b/tail", "/m/a/tail"}, []string{"/m/tail", "/m/a/b"}},
	{"/h", []string{"/h"}, nil},
	{"/x.{ext: /json|xml/}", []string{"/x.json", "/x.xml"}, []string{"/x.yaml", "/x."}},
	{"/s/{year: /[0-9]{4}/}/{slug}", []string{"/s/2024/hello", "/s/1999/a-b"}, []string{"/s/24/hello", "/s/2024"}},
	{"/static/{file}", []string{"/static/app.js"}, nil},
	{"/v/{id}/settings", []string{"/v/7/settings", "/v/8/settings"}, nil},
	{"/v/{id}/profile", []string{"/v/7/profile"}, nil},
	{"/v/{id}/posts", []string{"/v/7/posts", "/v/9/posts"}, nil},
	{"/v/{id}/billing", []string{"/v/7/billing"}, nil},
	{"/v/{id}/{page}", []string{"/v/7/other", "/v/7/settingsx"}, []string{"/v/7"}},
}

// SimplePatterns are pairwise disjoint, so the admitted route is known by
// construction.
var SimplePatterns = []Pat{
	{"/c0", []string{"/c0"}, nil},
	{"/c1/{x}", []string{"/c1/v1"}, nil},
	{"/c2/sub", []string{"/c2/sub"}, nil},
	{"/c3/{x}/{y}", []string{"/c3/a/b"}, nil},
	{"/c4", []string{"/c4"}, nil},
	{"/c5/{z: /[0-9]+/}", []string{"/c5/42"}, nil},
	{"/c6/?opt", []string{"/c6", "/c6/opt"}, nil}, // two leaves, one handler slice
}

// StaticPaths aim at the tree the conc engine serves through Static (both slash forms of a
// directory included).
var StaticPaths = []string{"/sub", "/sub/", "/app.js", "/index.html", "/assets/sub", "/assets/sub/", "/assets/app.js", "/sub/index.html", "/assets/"}

// Hostile are request paths aimed at nothing in particular.
var Hostile = []string{"/nope", "//", "/%zz", "/u/\x00", "/f/../u/x", "/static/../static", "", "/a/b/c/d/e/f/g/h/i/j", "/u/%2e%2e/x", "/ünï/cödé"}

// Profile holds the per-engine generator knobs; all rates are per mille.
type Profile struct {
	Patterns []Pat
	// set-up
	MwCounts      []int // candidate numbers of simulated application middleware
	LoggerPm      int
	RecoveryPm    int
	RecoveryAny   bool // Recovery may sit at group or route level instead
	RecoveryMust  bool
	RendererPm    int
	StaticPm      int
	SvcPm         int
	EnvLatePm     int
	WrapperPm     int
	StagedPm      int  // of the requests with a body: share whose client sends the head of the body and waits for the verdict
	WrapperRecPm  int  // of the set-ups with a HandlerWrapper: share whose wrapper records its calls
	HotStatic     bool // the hot path may be one of the Static tree's paths
	Nested        bool // register /__nested and give every request a sub-request record
	RegVariantsPm int  // less common registration sequences (Handlers(), NotFound() twice, Use() after routes, per-route AutoHead, empty group paths, ROUTES with string methods)
	ReqLoggerPm   int  // given Logger: a middleware in front of it maps a request-scoped logger
	TwinMethodPm  int  // a route gets a sibling registration of the same path for another method, with its own handlers
	GroupPm       int
	ActionPm      int
	NotFoundPm    int
	BeforesPm     int
	AutoHeadPm    int
	MinRoutes     int
	MaxRoutes     int
	MaxRouteHs    int
	Shapes        []int // shape weights indexed by shape
	MwShapes      []int // shape weights for handlers that are not the last of their route (nil: Shapes)
	Envs          []int // candidate environments
	HeadersPm     int
	NamedPm       int
	// programs
	Ops         []int // op weights indexed by op
	MaxActs     int
	NextMax     int   // cap on Next()/NextSwallow ops per program
	RetW        []int // weights of return kinds: zero, value, error
	FinalEcho   bool  // the last handler of each route echoes by default
	PanicPm     int   // per request: one handler program gets a panic
	MissingPm   int   // per set-up: one handler asks for a type nobody mapped
	BadStatus   int   // per request: one status is outside 100..999
	WFaultPm    int   // per request: writer fault plan
	HookPanicPm int   // per request: a BeforeFunc that panics, fired by a write of the handler that registered it
	RHPanicPm   int   // per request: a request-scoped ReturnHandler that panics while rendering a later handler's return value
	CancelPm    int   // per request: planned cancel at a chain-relevant yield index
	DeadlinePm  int   // per request: virtual deadline
	FaultFree   int   // per run: all faults off
	// workload
	MinTasks, MaxTasks int
	MinReqs, MaxReqs   int
	HotPm              int // a request reuses the run's hot path
	HotPaths           int // size of the run's set of hot paths (0: one)
	NearPm, HostilePm  int
	Methods            []string
	MethodW            []int
	ExtraPm            int
	KnownChain         bool // requests always use a method their target route has, so the chain they run is known by construction
}

func pickShape(g *tape.Stream, p *Profile, final bool, haveRender bool) int {
	needCtx := false
	w := p.Shapes
	if !final && p.MwShapes != nil {
		w = p.MwShapes
	}
	for tries := 0; tries < 8; tries++ {
		sh := g.Weighted(w...)
		if sh == ShCtxRender && !haveRender {
			continue
		}
		if sh == ShMissing {
			continue
		}
		if needCtx && !ShapeHasCtx(sh) {
			continue
		}
		return sh
	}
	return ShCtx
}

// GenSetup draws a set-up program.
func GenSetup(g *tape.Stream, p *Profile) *Setup {
	s := &Setup{}
	g.Begin("setup")
	defer g.End()
	s.Env = p.Envs[g.Intn(len(p.Envs))]
	s.EnvLate = g.Chance(p.EnvLatePm)
	s.BogusEnv = g.Chance(p.EnvLatePm)
	s.Wrapper = g.Chance(p.WrapperPm)
	if s.Wrapper && p.WrapperRecPm > 0 {
		s.WrapperRec = g.Chance(p.WrapperRecPm)
	}
	s.NestedRoute = p.Nested
	s.ViaHandlers = g.Chance(p.RegVariantsPm)
	s.NotFoundTwice = g.Chance(p.RegVariantsPm)
	s.SubgroupFirst = g.Chance(p.RegVariantsPm)
	haveRender := false
	recoveryPlaced := false
	wantRecovery := p.RecoveryMust || g.Chance(p.RecoveryPm)
	// Built-ins first, in flamego.Classic order, then the token mapper.
	if g.Chance(p.LoggerPm) {
		if g.Chance(p.ReqLoggerPm) {
			s.Mw = append(s.Mw, HSpec{Kind: HkReqLogger})
		}
		s.Mw = append(s.Mw, HSpec{Kind: HkLogger})
	}
	recoveryLevel := 0 // 0 app-level early, 1 app-level among sims, 2 group, 3 route
	if wantRecovery && p.RecoveryAny {
		recoveryLevel = g.Intn(4)
	}
	if wantRecovery && recoveryLevel == 0 {
		s.Mw = append(s.Mw, HSpec{Kind: HkRecovery})
		recoveryPlaced = true
	}
	s.Mw = append(s.Mw, HSpec{Kind: HkToken})
	if g.Chance(p.RendererPm) {
		s.Mw = append(s.Mw, HSpec{Kind: HkRenderer})
		haveRender = true
	}
	if g.Chance(p.StaticPm) {
		s.Mw = append(s.Mw, HSpec{Kind: HkStatic})
		s.Static = &StaticSpec{Prefix: []string{"", "/assets", "assets/"}[g.Intn(3)], ETag: g.Intn(2) == 1}
	}
	nsim := p.MwCounts[g.Intn(len(p.MwCounts))]
	recAt := -1
	if wantRecovery && recoveryLevel == 1 {
		recAt = g.Intn(nsim + 1)
	}
	for i := 0; i <= nsim; i++ {
		if i == recAt {
			s.Mw = append(s.Mw, HSpec{Kind: HkRecovery})
			recoveryPlaced = true
		}
		if i < nsim {
			g.Begin("mw")
			s.Mw = append(s.Mw, HSpec{Kind: HkSim, Shape: pickShape(g, p, false, haveRender)})
			g.End()
		}
	}
	// Use() batching.
	left := len(s.Mw)
	for left > 0 {
		b := 1 + g.Intn(3)
		if b > left {
			b = left
		}
		s.Batches = append(s.Batches, b)
		left -= b
	}
	if g.Chance(p.RegVariantsPm) && len(s.Mw) > 1 {
		s.LateMw = 1 + g.Intn(2)
		if s.LateMw >= len(s.Mw) {
			s.LateMw = len(s.Mw) - 1
		}
	}
	s.Svc = g.Chance(p.SvcPm)
	s.AutoHead = g.Chance(p.AutoHeadPm)
	if g.Chance(p.BeforesPm) {
		s.Befores = 1 + g.Intn(2)
		s.BeforeStop = g.Intn(2) == 1
	}
	if g.Chance(p.NotFoundPm) {
		n := 1 + g.Intn(2)
		for i := 0; i < n; i++ {
			s.NotFound = append(s.NotFound, HSpec{Kind: HkSim, Shape: pickShape(g, p, false, haveRender)})
		}
	}
	if g.Chance(p.ActionPm) {
		s.Action = &HSpec{Kind: HkSim, Shape: pickShape(g, p, false, haveRender)}
	}

	// Routes: patterns without repetition, optionally inside (nested) groups.
	nr := g.Range(p.MinRoutes, p.MaxRoutes)
	if nr > len(p.Patterns) {
		nr = len(p.Patterns)
	}
	start := g.Intn(len(p.Patterns))
	var routes []*RouteSpec
	for i := 0; i < nr; i++ {
		g.Begin("route")
		pi := (start + i) % len(p.Patterns)
		pat := p.Patterns[pi]
		rs := &RouteSpec{Pat: pi, Pattern: pat.P}
		rs.Method = []string{"GET", "*", "POST", "GET,POST", "COMBO"}[g.Weighted(6, 2, 1, 1, 1)]
		if rs.Method == "GET,POST" && g.Chance(p.RegVariantsPm) {
			rs.Method = "ROUTES-STR" // Routes(path, "GET", "POST", handlers...): a method given as a leading string handler
		}
		rs.AutoHead = s.AutoHead
		if g.Chance(p.RegVariantsPm) {
			rs.AutoHead = !s.AutoHead
		}
		nh := 1 + g.Intn(p.MaxRouteHs)
		for k := 0; k < nh; k++ {
			rs.Hs = append(rs.Hs, HSpec{Kind: HkSim, Shape: pickShape(g, p, k == nh-1, haveRender)})
		}
		if g.Chance(p.NamedPm) {
			rs.Name = "n" + itoa(i)
		}
		if pat.P == "/h" || g.Chance(p.HeadersPm) {
			rs.Headers = []string{"X-Gate", "^open$"}
			if g.Intn(2) == 1 { // several constraints: all of them must hold
				rs.Headers = []string{"X-Gate", "^open$", "X-Key", "^k[0-9]$", "X-Third", ""}
			}
		}
		routes = append(routes, rs)
		if (rs.Method == "GET" || rs.Method == "POST") && g.Chance(p.TwinMethodPm) {
			tw := &RouteSpec{Pat: pi, Pattern: pat.P, Method: "POST"}
			if rs.Method == "POST" {
				tw.Method = "GET"
			}
			nh2 := 1 + g.Intn(p.MaxRouteHs)
			for k := 0; k < nh2; k++ {
				tw.Hs = append(tw.Hs, HSpec{Kind: HkSim, Shape: pickShape(g, p, k == nh2-1, haveRender)})
			}
			routes = append(routes, tw)
		}
		g.End()
	}
	// Distribute the routes over the top level and up to two nested groups.
	var top []Node
	if len(routes) > 0 && g.Chance(p.GroupPm) {
		g.Begin("group")
		cut := g.Intn(len(routes) + 1)
		grp := &GroupSpec{Path: "/grp"}
		if g.Chance(p.RegVariantsPm) {
			grp.Path = "" // a group that only contributes handlers
		}
		ngh := g.Intn(3)
		for k := 0; k < ngh; k++ {
			grp.Hs = append(grp.Hs, HSpec{Kind: HkSim, Shape: pickShape(g, p, false, haveRender)})
		}
		inner := routes[cut:]
		if len(inner) > 1 && g.Chance(400) {
			cut2 := g.Intn(len(inner))
			sub := &GroupSpec{Path: "/sub"}
			if g.Intn(2) == 1 {
				sub.Hs = append(sub.Hs, HSpec{Kind: HkSim, Shape: pickShape(g, p, false, haveRender)})
			}
			for _, r := range inner[cut2:] {
				sub.Nodes = append(sub.Nodes, Node{Route: r})
			}
			if s.SubgroupFirst {
				grp.Nodes = append(grp.Nodes, Node{Group: sub})
			}
			for _, r := range inner[:cut2] {
				grp.Nodes = append(grp.Nodes, Node{Route: r})
			}
			if !s.SubgroupFirst {
				grp.Nodes = append(grp.Nodes, Node{Group: sub})
			}
		} else {
			for _, r := range inner {
				grp.Nodes = append(grp.Nodes, Node{Route: r})
			}
		}
		for _, r := range routes[:cut] {
			top = append(top, Node{Route: r})
		}
		top = append(top, Node{Group: grp})
		g.End()
	} else {
		for _, r := range routes {
			top = append(top, Node{Route: r})
		}
	}
	s.Nodes = top

	// Recovery at group or route level.
	if wantRecovery && !recoveryPlaced {
		placed := false
		if recoveryLevel == 2 {
			for _, n := range s.Nodes {
				if n.Group != nil {
					at := g.Intn(len(n.Group.Hs) + 1)
					hs := append([]HSpec{}, n.Group.Hs[:at]...)
					hs = append(hs, HSpec{Kind: HkRecovery})
					n.Group.Hs = append(hs, n.Group.Hs[at:]...)
					placed = true
					break
				}
			}
		}
		if !placed && recoveryLevel >= 2 && len(routes) > 0 {
			// Route level: in front of some of the handlers of every route, so
			// every request that reaches a route has it.
			for _, r := range routes {
				at := g.Intn(len(r.Hs))
				hs := append([]HSpec{}, r.Hs[:at]...)
				hs = append(hs, HSpec{Kind: HkRecovery})
				r.Hs = append(hs, r.Hs[at:]...)
			}
			placed = true
		}
		if !placed {
			s.Mw = append([]HSpec{{Kind: HkRecovery}}, s.Mw...)
			s.Batches = append([]int{1}, s.Batches...)
		}
	}

	// One handler asks for a type nobody mapped (failed dependency resolution).
	if g.Chance(p.MissingPm) && len(routes) > 0 {
		r := routes[g.Intn(len(routes))]
		k := g.Intn(len(r.Hs))
		if r.Hs[k].Kind == HkSim {
			r.Hs[k].Shape = ShMissing
		}
	}
	s.FinalEcho = p.FinalEcho
	s.finish(p)
	return s
}

// finish computes full patterns and instance paths.
func (s *Setup) finish(p *Profile) {
	s.Routes = nil
	var walk func(prefix string, nodes []Node)
	walk = func(prefix string, nodes []Node) {
		for _, n := range nodes {
			if n.Route != nil {
				r := n.Route
				r.Index = len(s.Routes)
				r.Full = prefix + r.Pattern
				pat := p.Patterns[r.Pat]
				r.Inst, r.Near = nil, nil
				for _, x := range pat.Inst {
					r.Inst = append(r.Inst, prefix+x)
				}
				for _, x := range pat.Near {
					r.Near = append(r.Near, prefix+x)
				}
				s.Routes = append(s.Routes, r)
			} else {
				walk(prefix+n.Group.Path, n.Group.Nodes)
			}
		}
	}
	walk("", s.Nodes)
}

// MethodsOf lists the HTTP methods a route spec registers.
func MethodsOf(r *RouteSpec, autoHead bool) []string {
	switch r.Method {
	case "*":
		return []string{"GET", "POST", "PUT", "DELETE", "PATCH", "OPTIONS", "HEAD"}
	case "ROUTES-STR":
		return []string{"GET", "POST"}
	case "GET,POST", "COMBO":
		if autoHead && r.Method == "COMBO" {
			return []string{"GET", "POST", "HEAD"}
		}
		return []string{"GET", "POST"}
	case "GET":
		if autoHead {
			return []string{"GET", "HEAD"}
		}
	}
	return []string{r.Method}
}

// Describe renders the set-up program for reports.
func (s *Setup) Describe() []string {
	var out []string
	hs := func(l []HSpec) string {
		var p []string
		for _, h := range l {
			switch h.Kind {
			case HkSim:
				p = append(p, "sim("+ShapeNames[h.Shape]+")")
			case HkLogger:
				p = append(p, "Logger")
			case HkRecovery:
				p = append(p, "Recovery")
			case HkRenderer:
				p = append(p, "Renderer")
			case HkStatic:
				p = append(p, "Static")
			case HkToken:
				p = append(p, "token")
			case HkReqLogger:
				p = append(p, "request-logger")
			case HkUpstreamHeaders:
				p = append(p, "upstream-headers")
			}
		}
		return strings.Join(p, ",")
	}
	b := ""
	for _, x := range s.Batches {
		b += itoa(x) + " "
	}
	late := ""
	if s.EnvLate {
		late = "(set after set-up)"
	}
	out = append(out, "env="+[]string{"dev", "prod", "test"}[s.Env]+late+" use["+hs(s.Mw)+"] batches="+strings.TrimSpace(b))
	if s.NotFound != nil {
		out = append(out, "notfound["+hs(s.NotFound)+"]")
	}
	if s.Action != nil {
		out = append(out, "action["+hs([]HSpec{*s.Action})+"]")
	}
	var walk func(ind string, nodes []Node)
	walk = func(ind string, nodes []Node) {
		for _, n := range nodes {
			if n.Route != nil {
				r := n.Route
				l := ind + r.Method + " " + r.Pattern + " [" + hs(r.Hs) + "]"
				if r.Name != "" {
					l += " name=" + r.Name
				}
				if r.Headers != nil {
					l += " headers=" + strings.Join(r.Headers, ":")
				}
				out = append(out, l)
			} else {
				out = append(out, ind+"group "+n.Group.Path+" ["+hs(n.Group.Hs)+"]")
				walk(ind+"  ", n.Group.Nodes)
			}
		}
	}
	walk("", s.Nodes)
	return out
}

var _ = http.MethodGet
