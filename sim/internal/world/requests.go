package world

import (
	"strings"
	"verif/sim/internal/tape"
)

// StatusCodes a handler may send on purpose.
var StatusCodes = []int{200, 201, 204, 301, 404, 418, 500, 103, 100}

// BadCodes are refused by the underlying writer (as net/http does).
var BadCodes = []int{0, 99, 1000, -1}

func genProgram(g *tape.Stream, p *Profile, isFinal bool) []Act {
	var prog []Act
	n := g.Intn(p.MaxActs + 1)
	nexts := 0
	for i := 0; i < n; i++ {
		op := g.Weighted(p.Ops...)
		a := Act{Op: uint8(op)}
		switch op {
		case OpWriteHeader:
			a.A = int32(StatusCodes[g.Intn(len(StatusCodes))])
		case OpWrite, OpCopy:
			a.A = int32(g.Intn(24))
		case OpNext, OpNextSwallow:
			if nexts >= p.NextMax {
				continue
			}
			nexts++
		case OpRender:
			a.A = int32(g.Intn(8))
		case OpFlush:
			a.A = int32(g.Intn(2)) // 1: through an http.ResponseController
		case OpBefore:
			a.A = int32(i)
		case OpPanic:
			continue // panics are placed by the fault plan, not by the op mix
		}
		prog = append(prog, a)
	}
	if isFinal && p.FinalEcho {
		prog = append(prog, Act{Op: OpEcho})
	}
	return prog
}

func ms0(m []string) string {
	if len(m) == 0 {
		return "GET"
	}
	return m[0]
}

func hasMethod(ms []string, m string) bool {
	for _, x := range ms {
		if x == m {
			return true
		}
	}
	return false
}

// GenRequests draws the workload: tasks × requests, each with its programs and
// its fault plan. All faults are decided here, in request-local coordinates.
func GenRequests(g *tape.Stream, fg *tape.Stream, s *Setup, p *Profile) [][]*Req {
	nt := g.Range(p.MinTasks, p.MaxTasks)
	out := make([][]*Req, nt)
	faultFree := fg.Chance(p.FaultFree)
	id := 0
	var hot string
	hotChain := -99
	var hotMethods []string
	type hotT struct {
		path    string
		chain   int
		methods []string
	}
	var hots []hotT
	nh := p.HotPaths
	if nh < 1 {
		nh = 1
	}
	for i := 0; i < nh && len(s.Routes) > 0; i++ {
		r := s.Routes[g.Intn(len(s.Routes))]
		hots = append(hots, hotT{r.Inst[g.Intn(len(r.Inst))], r.Index, MethodsOf(r, r.AutoHead)})
	}
	if p.HotStatic && s.Static != nil && g.Intn(2) == 0 {
		// the hot spot is a path of the Static tree (a directory with an index, mostly)
		sp := StaticPaths[g.Intn(len(StaticPaths))]
		if g.Intn(3) != 0 {
			// a directory answered through its index file (two opens per request), spelled with
			// the prefix this instance was given
			sp = []string{"/sub/", "/"}[g.Intn(2)]
			if strings.Trim(s.Static.Prefix, "/") != "" {
				sp = "/" + strings.Trim(s.Static.Prefix, "/") + sp
			}
		}
		if len(hots) == 0 {
			hots = append(hots, hotT{})
		}
		hots[0] = hotT{sp, -99, []string{"GET", "HEAD"}}
	}
	if len(hots) > 0 {
		hot, hotChain, hotMethods = hots[0].path, hots[0].chain, hots[0].methods
	}
	maxChain := len(s.Mw) + 8
	if maxChain > ActionPos {
		maxChain = ActionPos
	}
	for t := range out {
		n := g.Range(p.MinReqs, p.MaxReqs)
		for k := 0; k < n; k++ {
			g.Begin("req")
			q := &Req{ID: id, Name: "q" + itoa(id)}
			id++
			q.Method = p.Methods[g.Weighted(p.MethodW...)]
			switch {
			case hot != "" && g.Chance(p.HotPm):
				if len(hots) > 1 {
					h := hots[g.Intn(len(hots))]
					hot, hotChain, hotMethods = h.path, h.chain, h.methods
				}
				q.Path, q.Tag, q.Chain = hot, "hot", hotChain
			case s.Static != nil && g.Intn(4) == 1:
				q.Path, q.Tag, q.Chain = StaticPaths[g.Intn(len(StaticPaths))], "static", -99
			case g.Chance(p.HostilePm) || len(s.Routes) == 0:
				q.Path, q.Tag, q.Chain = Hostile[g.Intn(len(Hostile))], "hostile", -1
			default:
				r := s.Routes[g.Intn(len(s.Routes))]
				if len(r.Near) > 0 && g.Chance(p.NearPm) {
					q.Path, q.Tag, q.Chain = r.Near[g.Intn(len(r.Near))], "near", -99
				} else {
					q.Path, q.Tag, q.Chain = r.Inst[g.Intn(len(r.Inst))], "inst", r.Index
				}
				if q.Method == "GET" || q.Method == "POST" {
					// keep most requests on a method the route has
					ms := MethodsOf(r, r.AutoHead)
					ok := false
					for _, m := range ms {
						if m == q.Method {
							ok = true
						}
					}
					if !ok && (p.KnownChain || g.Intn(4) != 3) {
						q.Method = ms[0]
					}
				} else if p.KnownChain && !hasMethod(MethodsOf(r, r.AutoHead), q.Method) {
					q.Method = ms0(MethodsOf(r, r.AutoHead))
				}
			}
			if q.Tag == "hot" && p.KnownChain && !hasMethod(hotMethods, q.Method) {
				q.Method = ms0(hotMethods)
			}
			q.Query = "q=" + q.Name
			if q.Method == "POST" || g.Intn(5) == 1 {
				q.Body = "body-of-" + q.Name
				if p.StagedPm > 0 {
					q.Staged = g.Chance(p.StagedPm)
				}
			}
			if g.Chance(p.ExtraPm) {
				q.Hdr = append(q.Hdr, [2]string{"X-Extra", "1"})
			}
			switch g.Intn(3) {
			case 1:
				q.Hdr = append(q.Hdr, [2]string{"X-Gate", "open"})
			case 2:
				q.Hdr = append(q.Hdr, [2]string{"X-Gate", "shut"})
			}
			switch g.Intn(4) {
			case 1:
				q.Hdr = append(q.Hdr, [2]string{"X-Key", "k1"}, [2]string{"X-Third", "x"})
			case 2:
				q.Hdr = append(q.Hdr, [2]string{"X-Key", "nope"})
			case 3:
				q.Hdr = append(q.Hdr, [2]string{"X-Key", "k2"})
			}
			if g.Intn(4) == 1 {
				q.Hdr = append(q.Hdr, [2]string{"X-Real-IP", "10.0.0." + itoa(q.ID)})
			}
			if g.Intn(4) == 1 {
				q.Hdr = append(q.Hdr, [2]string{"Cookie", "ck=c" + q.Name})
			}
			q.Flusher = g.Intn(3) == 1
			if g.Intn(4) == 1 {
				q.Hijacker = 1 + g.Intn(2)
			}
			q.ReaderFrom = g.Intn(3) == 1
			switch g.Intn(10) { // request headers that middleware is known to special-case
			case 1:
				q.Hdr = append(q.Hdr, [2]string{"Upgrade", "websocket"}, [2]string{"Connection", "Upgrade"})
			case 2:
				q.Hdr = append(q.Hdr, [2]string{"X-Requested-With", "XMLHttpRequest"})
			case 3:
				q.Hdr = append(q.Hdr, [2]string{"Content-Type", "application/json"}, [2]string{"Origin", "https://example.org"})
			}
			if s.BeforeStop && g.Intn(12) == 1 {
				q.Hdr = append(q.Hdr, [2]string{"X-Stop", "1"})
			}
			switch g.Intn(6) {
			case 1:
				q.Host = "localhost"
			case 2:
				q.Host = "127.0.0.1:8080"
			case 3:
				q.Hdr = append(q.Hdr, [2]string{"Accept", "application/json"})
			}
			q.Progs = make([][]Act, MaxPos)
			q.Rets = make([]Ret, MaxPos)
			for pos := 0; pos < maxChain; pos++ {
				g.Begin("prog")
				q.Progs[pos] = genProgram(g, p, false)
				q.Rets[pos] = Ret{Kind: g.Weighted(p.RetW...), Code: StatusCodes[g.Intn(len(StatusCodes))]}
				g.End()
			}
			g.Begin("prog")
			q.Progs[ActionPos] = genProgram(g, p, false)
			q.Rets[ActionPos] = Ret{Kind: g.Weighted(p.RetW...), Code: StatusCodes[g.Intn(len(StatusCodes))]}
			g.End()
			g.End()

			// Fault plan (its own stream, so faults can be shrunk away
			// without disturbing the workload).
			q.PlannedCancel = -1
			if !faultFree {
				fg.Begin("fault")
				if fg.Chance(p.PanicPm) {
					pos := fg.Intn(maxChain + 1)
					if pos == maxChain {
						pos = ActionPos
					}
					at := fg.Intn(len(q.Progs[pos]) + 1)
					kind := fg.Intn(pvMax)
					pr := append([]Act{}, q.Progs[pos][:at]...)
					pr = append(pr, Act{Op: OpPanic, A: int32(kind)})
					q.Progs[pos] = append(pr, q.Progs[pos][at:]...)
				}
				if fg.Chance(p.BadStatus) {
					pos := fg.Intn(maxChain)
					code := BadCodes[fg.Intn(len(BadCodes))]
					if fg.Intn(2) == 0 {
						q.Rets[pos].Code = code
					} else {
						at := fg.Intn(len(q.Progs[pos]) + 1)
						pr := append([]Act{}, q.Progs[pos][:at]...)
						pr = append(pr, Act{Op: OpWriteHeader, A: int32(code)})
						q.Progs[pos] = append(pr, q.Progs[pos][at:]...)
					}
				}
				if fg.Chance(p.HookPanicPm) {
					pos := fg.Intn(maxChain)
					at := fg.Intn(len(q.Progs[pos]) + 1)
					pr := append([]Act{}, q.Progs[pos][:at]...)
					pr = append(pr, Act{Op: OpBefore, A: -1}, Act{Op: OpWrite, A: 5})
					q.Progs[pos] = append(pr, q.Progs[pos][at:]...)
				}
				if fg.Chance(p.RHPanicPm) {
					pos := fg.Intn(maxChain)
					q.Progs[pos] = append([]Act{{Op: OpMapRH, A: 1}}, q.Progs[pos]...)
				}
				if fg.Chance(p.WFaultPm) {
					q.WPlan = append(q.WPlan, WFault{At: fg.Intn(3), Kind: 1 + fg.Intn(2), Keep: fg.Intn(6)})
				}
				q.CtxErr = fg.Weighted(3, 2, 1, 2)
				if !AutoMode && fg.Chance(p.CancelPm) {
					q.PlannedCancel = fg.Intn(40)
				}
				if !AutoMode && fg.Chance(p.DeadlinePm) {
					q.Deadline = int64(1 + fg.Intn(120))
				}
				fg.End()
			}
			if p.Nested {
				q.Sub = &Req{ID: q.ID, Name: q.Name + "n", PlannedCancel: -1, Progs: make([][]Act, MaxPos), Rets: make([]Ret, MaxPos)}
				for i := range q.Sub.Rets {
					q.Sub.Rets[i].Code = 200
				}
			}
			out[t] = append(out[t], q)
		}
	}
	return out
}

// CloneForTwin copies the request plans (not the recordings) for the solo twin;
// cancel positions observed in the simulated run become the twin's plan.
func CloneForTwin(in [][]*Req) [][]*Req {
	out := make([][]*Req, len(in))
	for i := range in {
		for _, r := range in[i] {
			c := &Req{ID: r.ID, Name: r.Name, Chain: r.Chain, Body: r.Body, CtxErr: r.CtxErr, Host: r.Host, Method: r.Method, Path: r.Path, Query: r.Query, Hdr: r.Hdr, Progs: r.Progs, Rets: r.Rets, Staged: r.Staged,
				WPlan: r.WPlan, Flusher: r.Flusher, Hijacker: r.Hijacker, ReaderFrom: r.ReaderFrom, Tag: r.Tag}
			c.PlannedCancel = r.PlannedCancel
			if r.AsyncCancelAt >= 0 {
				c.PlannedCancel = r.AsyncCancelAt
			}
			out[i] = append(out[i], c)
		}
	}
	return out
}
