package world

import (
	"errors"
	"io"
	"io/fs"
	"net/http"

	"verif/sim/internal/sched"
)

// FS fault kinds.
const (
	FsErr   = 1 // the call fails
	FsShort = 2 // Read: returns Keep bytes, then fails on the next Read
)

// FSFault is a planned fault of the file system, in request-local coordinates:
// the At-th file-system call made while serving the request.
type FSFault struct {
	At   int
	Kind int
	Keep int
}

// FSMutation is a planned change of the served tree, applied by the task
// itself right before the At-th file-system call of the request (the world is
// serialised, so this is "between two steps" for every other task too).
type FSMutation struct {
	At   int
	Do   func()
	What string
}

// ErrFS is the injected file-system error.
var ErrFS = errors.New("sim: injected I/O error")

// FaultFS wraps an http.FileSystem: every call yields to the scheduler, is
// logged with the request being served, and may fail according to the plan.
type FaultFS struct {
	Inner http.FileSystem
}

func curReq() *Req {
	if l := sched.CurrentLocal(); l != nil {
		if q, ok := l.Ref.(*Req); ok {
			return q
		}
	}
	return nil
}

// fsCall is the common prologue of every file-system call.
func fsCall(op, name string) (q *Req, fault *FSFault) {
	sched.Yield(SiteFS)
	q = curReq()
	if q == nil {
		return nil, nil
	}
	k := q.fsCalls
	q.fsCalls++
	for i := range q.FSMut {
		if q.FSMut[i].At == k && q.FSMut[i].Do != nil {
			q.FSMut[i].Do()
			q.ev(EvFS, 0, 9, "MUTATE "+q.FSMut[i].What)
		}
	}
	for i := range q.FSPlan {
		if q.FSPlan[i].At == k {
			fault = &q.FSPlan[i]
		}
	}
	return q, fault
}

func (f FaultFS) Open(name string) (http.File, error) {
	q, fault := fsCall("open", name)
	if fault != nil {
		q.ev(EvFS, 0, 1, "open "+name)
		return nil, &fs.PathError{Op: "open", Path: name, Err: ErrFS}
	}
	file, err := f.Inner.Open(name)
	if q != nil {
		a := 0
		if err != nil {
			a = 2
		}
		q.ev(EvFS, 0, a, "open "+name)
	}
	if err != nil {
		return nil, err
	}
	return &faultFile{File: file, name: name}, nil
}

type faultFile struct {
	http.File
	name   string
	broken bool
}

func (f *faultFile) Stat() (fs.FileInfo, error) {
	q, fault := fsCall("stat", f.name)
	if fault != nil {
		q.ev(EvFS, 0, 1, "stat "+f.name)
		return nil, &fs.PathError{Op: "stat", Path: f.name, Err: ErrFS}
	}
	fi, err := f.File.Stat()
	if q != nil {
		a := 0
		if err != nil {
			a = 2
		}
		q.ev(EvFS, 0, a, "stat "+f.name)
	}
	return fi, err
}

func (f *faultFile) Read(p []byte) (int, error) {
	q, fault := fsCall("read", f.name)
	if f.broken {
		if q != nil {
			q.ev(EvFS, 0, 1, "read "+f.name)
		}
		return 0, ErrFS
	}
	if fault != nil {
		if fault.Kind == FsShort && fault.Keep > 0 && len(p) > 0 {
			k := fault.Keep
			if k > len(p) {
				k = len(p)
			}
			n, err := f.File.Read(p[:k])
			f.broken = true
			q.ev(EvFS, 0, 1, "read-short "+f.name)
			if err == io.EOF {
				err = nil
			}
			return n, err
		}
		q.ev(EvFS, 0, 1, "read "+f.name)
		return 0, ErrFS
	}
	n, err := f.File.Read(p)
	if q != nil {
		a := 0
		if err != nil && err != io.EOF {
			a = 2
		}
		q.ev(EvFS, 0, a, "read "+f.name)
	}
	return n, err
}

func (f *faultFile) Seek(off int64, whence int) (int64, error) {
	q, fault := fsCall("seek", f.name)
	if fault != nil {
		q.ev(EvFS, 0, 1, "seek "+f.name)
		return 0, ErrFS
	}
	n, err := f.File.Seek(off, whence)
	if q != nil {
		a := 0
		if err != nil {
			a = 2
		}
		q.ev(EvFS, 0, a, "seek "+f.name)
	}
	return n, err
}

func (f *faultFile) Readdir(n int) ([]fs.FileInfo, error) {
	q, fault := fsCall("readdir", f.name)
	if fault != nil {
		q.ev(EvFS, 0, 1, "readdir "+f.name)
		return nil, ErrFS
	}
	l, err := f.File.Readdir(n)
	if q != nil {
		q.ev(EvFS, 0, 0, "readdir "+f.name)
	}
	return l, err
}

func (f *faultFile) Close() error {
	q, fault := fsCall("close", f.name)
	err := f.File.Close()
	if fault != nil {
		q.ev(EvFS, 0, 1, "close "+f.name)
		return ErrFS
	}
	if q != nil {
		q.ev(EvFS, 0, 0, "close "+f.name)
	}
	return err
}
