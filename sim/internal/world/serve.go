package world

import (
	gocontext "context"
	"errors"
	"io"
	"io/fs"
	"net/http"
	"net/url"
	"sort"
	"strings"
	"sync"
	"time"

	"verif/sim/internal/sched"
)

// Serve runs one request through the instance on the calling goroutine (a
// task, or the solo caller). The request is a struct literal: no HTTP parsing,
// no sockets, no httptest.
func (w *World) Serve(q *Req) {
	q.W = newSpy(q)
	q.Events = q.Events[:0]
	q.Escaped = ""
	q.AsyncCancelAt = -1
	q.fsCalls = 0
	ctx := newSimCtx(q.CtxErr)
	cancel := ctx.cancel
	q.rawCancel = cancel
	q.substituted = false
	q.StartStamp = sched.Stamp()
	q.logSink.reset()
	q.Local.Ref = q
	q.Local.Init(q.PlannedCancel, func() {
		q.AsyncCancelAt = q.Local.CIdx
		q.ev(EvCancel, 0, 0, SiteName(q.Local.CancelSite))
		q.rawCancel() // the request's current context (a handler may have installed a derived one)
	})
	h := http.Header{"X-Req": {q.Name}}
	for _, kv := range q.Hdr {
		h.Set(kv[0], kv[1])
	}
	if q.ETagOf != nil && q.ETagOf.W != nil && q.ETagOf.W.Sent != nil {
		if et := q.ETagOf.W.Sent.Get("ETag"); et != "" {
			h.Set("If-None-Match", et)
		}
	}
	u := &url.URL{Path: q.Path, RawQuery: q.Query}
	req := (&http.Request{Method: q.Method, URL: u, Header: h, Proto: "HTTP/1.1", ProtoMajor: 1, ProtoMinor: 1,
		Host: hostOf(q), RequestURI: requestURI(q), RemoteAddr: "192.0.2." + itoa(q.ID%250) + ":4000"}).WithContext(ctx)
	if q.Body != "" && q.Staged {
		req.Body = &stagedBody{q: q}
		req.ContentLength = int64(len(q.Body)) + 1<<20
	} else if q.Body != "" {
		req.Body = io.NopCloser(strings.NewReader(q.Body))
		req.ContentLength = int64(len(q.Body))
	} else {
		req.Body = http.NoBody
	}
	q.HTTP = req
	func() {
		defer func() {
			if p := recover(); p != nil {
				if _, ok := p.(sched.Abort); ok {
					q.Escaped = "ABORT"
				} else {
					q.Escaped = DescribePanic(p)
				}
				q.ev(EvEscaped, 0, 0, q.Escaped)
			}
		}()
		q.W.HijackFails = q.Hijacker == 1
		w.F.ServeHTTP(q.W.WriterFacets(q.Flusher, q.ReaderFrom, q.Hijacker != 0), req)
	}()
	cancel()
	q.EndStamp = sched.Stamp()
	q.Served = true
}

// stagedBody is the request body of a slow or cautious client: it has announced a megabyte,
// sent the first few bytes, and sends the rest only once it has seen the server's verdict (a
// staged upload, a saturated uplink). Read hands out the head and then blocks - on the virtual
// clock - until the response status has left. Application handlers of such requests do not read
// the body; a framework that drains it before answering waits for a client that waits for it.
type stagedBody struct {
	q   *Req
	off int
}

func (b *stagedBody) Read(p []byte) (int, error) {
	if b.off < len(b.q.Body) {
		n := copy(p, b.q.Body[b.off:])
		b.off += n
		return n, nil
	}
	if b.q.W.PeekCode() == 0 {
		b.q.Note("body:read-blocks-until-verdict")
	}
	for b.q.W.PeekCode() == 0 {
		sched.Sleep(50 * time.Millisecond)
	}
	return 0, io.ErrUnexpectedEOF // the client has its answer and hangs up
}

func (b *stagedBody) Close() error { return nil }

// simCtx is the request's root context: a context.Context the simulator ends itself, with the
// error the fault plan chose — context.Canceled (client went away), context.DeadlineExceeded
// (an upstream deadline passed) or an error of its own (a custom context type). No timers.
type simCtx struct {
	done chan struct{}
	mu   sync.Mutex
	err  error
	kind int
}

// ErrCtxCustom is what a custom context type may report once it is done.
var ErrCtxCustom = errors.New("sim: upstream gave up")

func newSimCtx(kind int) *simCtx { return &simCtx{done: make(chan struct{}), kind: kind} }

func (c *simCtx) Deadline() (time.Time, bool) {
	if c.kind == 3 {
		// a context that carries a deadline (a timeout middleware upstream, http.TimeoutHandler, a
		// caller-supplied context) far ahead; it ends earlier, by cancellation
		return time.Date(2099, 1, 1, 0, 0, 0, 0, time.UTC), true
	}
	return time.Time{}, false
}
func (c *simCtx) Done() <-chan struct{}         { return c.done }
func (c *simCtx) Value(interface{}) interface{} { return nil }
func (c *simCtx) Err() error {
	c.mu.Lock()
	defer c.mu.Unlock()
	return c.err
}

func (c *simCtx) cancel() {
	c.mu.Lock()
	defer c.mu.Unlock()
	if c.err != nil {
		return
	}
	switch c.kind {
	case 1:
		c.err = gocontext.DeadlineExceeded
	case 2:
		c.err = ErrCtxCustom
	default:
		c.err = gocontext.Canceled
	}
	close(c.done)
}

// replaceCancel makes later cancels (asynchronous or by a handler) hit the derived context a
// handler has just installed as the request's context.
//
//go:norace
func (q *Req) replaceCancel(c func()) { q.rawCancel = c }

func hostOf(q *Req) string {
	if q.Host != "" {
		return q.Host
	}
	return "sim"
}

func requestURI(q *Req) string {
	if q.Query != "" {
		return q.Path + "?" + q.Query
	}
	return q.Path
}

// DescribePanic renders a recovered value without fmt.
func DescribePanic(p interface{}) string {
	switch v := p.(type) {
	case string:
		return "string:" + v
	case fmtValue:
		return "formatter"
	case publicValue:
		return "public"
	case *fragileErr:
		return "error-with-panicking-Error()"
	case errList:
		return "slice-typed-error:" + v[0]
	case *fs.PathError:
		if v == nil {
			return "typed-nil-*fs.PathError"
		}
		return "error:" + v.Error()
	case error:
		return "error:" + safeError(v)
	case panicStruct:
		return "struct:" + v.Tok
	case int:
		return "int:" + itoa(v)
	}
	return "other"
}

// safeError calls Error() and survives its panic.
func safeError(e error) (s string) {
	defer func() {
		if recover() != nil {
			s = "<Error() panicked>"
		}
	}()
	return e.Error()
}

// Outcome is the observable result of a request, used for the comparison with
// the solo twin: status, body, headers as sent, the handler/writer event
// trace and any panic that escaped.
func (q *Req) Outcome() string {
	if q.W == nil {
		return "unserved"
	}
	var sb strings.Builder
	sb.WriteString(itoa(q.W.Code))
	sb.WriteString("|")
	sb.WriteString(NormaliseDevPage(string(q.W.Body)))
	sb.WriteString("|")
	hdr := q.W.Sent
	if hdr == nil {
		hdr = q.W.H
	}
	keys := make([]string, 0, len(hdr))
	for k := range hdr {
		keys = append(keys, k)
	}
	sort.Strings(keys)
	for _, k := range keys {
		sb.WriteString(k + "=" + strings.Join(hdr[k], ",") + ";")
	}
	sb.WriteString("|")
	// the yield site at which an asynchronous cancel was delivered is a coordinate of the
	// simulator, not an observable: it is left out of the comparison
	devPage := strings.Contains(string(q.W.Body), "<title>PANIC:")
	for i, e := range q.Events {
		if i > 0 {
			sb.WriteByte(' ')
		}
		if e.K == EvCancel {
			e.S = ""
		}
		if e.K == EvSpyWrite && devPage {
			e.A = 0 // the page's length includes the simulator's own frames
		}
		sb.WriteString(e.String())
	}
	sb.WriteString("|esc=" + q.Escaped)
	if lt := q.logSink.text(); len(lt) > 0 {
		sb.WriteString("|log=")
		sb.WriteString(normaliseLog(lt))
	}
	return sb.String()
}

// NormaliseDevPage reduces the stack trace of Recovery's development-mode page to the frames of
// the application (the simulated handlers): the simulator's own call chain underneath Serve
// differs between a scheduler task and a solo caller, and the framework's frames in between
// depend on which internal path served the request (a cache hit and a miss print different
// lines), which is no business of the request's observable outcome. What remains still ties
// the page to the request that panicked: its message and its handlers' frames.
func NormaliseDevPage(b string) string {
	if !strings.Contains(b, "<title>PANIC:") {
		return b
	}
	i := strings.Index(b, "<pre>")
	k := strings.LastIndex(b, "</pre>")
	if i < 0 || k < i {
		return b
	}
	lines := strings.Split(b[i+len("<pre>"):k], "\n")
	var keep []string
	for n := 0; n < len(lines); n++ {
		l := lines[n]
		if strings.HasPrefix(l, "\t") {
			continue
		}
		if !strings.HasPrefix(l, "/verif/sim/internal/world/") {
			continue
		}
		if n+1 < len(lines) && strings.Contains(lines[n+1], "(*World).Serve") {
			break
		}
		keep = append(keep, l)
		if n+1 < len(lines) && strings.HasPrefix(lines[n+1], "\t") {
			keep = append(keep, lines[n+1])
		}
	}
	return b[:i+len("<pre>")] + strings.Join(keep, "\n") + b[k:]
}

// normaliseLog keeps the request log's own records (the Logger middleware's Started/Completed
// lines) without their one wall-clock dependent field; Recovery's panic records carry stack
// traces whose outer frames differ between a task and a solo caller and are left out.
func normaliseLog(s string) string {
	var out []string
	for _, line := range strings.Split(s, "\n") {
		if !strings.Contains(line, "Started") && !strings.Contains(line, "Completed") {
			continue
		}
		if strings.Contains(line, "PANIC") || strings.Contains(line, ".go:") {
			continue
		}
		for _, f := range strings.Fields(line) {
			// keep what identifies the request and its outcome; drop whatever may carry wall-clock
			// time (durations, timestamps) or other fields a later version of the middleware adds
			if i := strings.IndexByte(f, '='); i > 0 {
				switch f[:i] {
				case "method", "path", "status", "remote":
					out = append(out, f)
				}
				continue
			}
			if strings.IndexFunc(f, func(r rune) bool { return r >= 'A' && r <= 'Z' || r >= 'a' && r <= 'z' }) >= 0 {
				out = append(out, f)
			}
		}
	}
	return strings.Join(out, " ")
}

// Trace renders the event log.
func (q *Req) Trace() string {
	var sb strings.Builder
	for i, e := range q.Events {
		if i > 0 {
			sb.WriteByte(' ')
		}
		sb.WriteString(e.String())
	}
	return sb.String()
}

// Line renders the request itself.
func (q *Req) Line() string {
	s := q.Name + " " + q.Method + " " + q.Path
	for _, kv := range q.Hdr {
		s += " " + kv[0] + "=" + kv[1]
	}
	if q.PlannedCancel >= 0 {
		s += " cancel@" + itoa(q.PlannedCancel)
	}
	if q.Deadline > 0 {
		s += " deadline=" + itoa(int(q.Deadline))
	}
	if len(q.WPlan) > 0 {
		s += " wfault"
	}
	return s
}

// DescribeProgs renders the non-empty handler programs of the request.
func (q *Req) DescribeProgs() []string {
	var out []string
	for pos, pr := range q.Progs {
		if len(pr) == 0 {
			continue
		}
		var l []string
		for _, a := range pr {
			l = append(l, OpNames[a.Op]+"("+itoa(int(a.A))+")")
		}
		out = append(out, "pos"+itoa(pos)+": "+strings.Join(l, " ")+" ret="+itoa(q.Rets[pos].Kind)+"/"+itoa(q.Rets[pos].Code))
	}
	return out
}

// OpNames for reports.
var OpNames = []string{"yield", "writeHeader", "write", "flush", "next", "nextSwallow", "cancel", "mapExtra", "seeExtra", "panic", "echo",
	"mark", "checkMark", "setHeader", "before", "render", "redirect", "status", "cookie", "seeSvc", "seeHeaders", "mapIface", "seeIface", "invoke", "apply", "seeNamer", "httpError", "hijack", "copy", "nestedServe", "setContentType", "setContentLength", "expireCtx", "mapOwnWriter", "seePath", "seeBody", "mapReturnHandler", "mutQuery", "replaceCtx"}
