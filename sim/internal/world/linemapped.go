package world

// raiseFromMappedLine panics from a position that a //line directive maps into a file shorter
// than the recorded line number by exactly one (as generated code, or sources edited after the
// build, produce): whoever renders the stack must cope with a line just past the end of the file.
func raiseFromMappedLine(tok string) {
//line /verif/sim/internal/world/linefixture.tmpl:4
	panic(tok)
}

// raiseFromMissingFile panics from a position that a //line directive maps into a file that is
// not there (template-generated code, a binary running without its sources).
func raiseFromMissingFile(tok string) {
//line /verif/sim/internal/world/views/missing-page.templ:12
	panic(tok)
}
