package world

import (
	gocontext "context"
	"errors"
	"fmt"
	"io"
	"io/fs"
	"net"
	"net/http"
	"net/url"
	"os"
	"reflect"
	"sort"
	"strings"
	"syscall"
	"time"

	"github.com/charmbracelet/log"
	"github.com/flamego/flamego"
	"github.com/flamego/flamego/inject"

	"verif/sim/internal/sched"
)

// Handler shapes: the Go signature a simulated handler is registered with.
// Some are wrapped by flamego into fast invokers, the rest are called through
// reflection.
const (
	ShCtx           = iota // func(Context)                               fast (ContextInvoker)
	ShHTTP                 // func(http.ResponseWriter, *http.Request)    fast
	ShCtxTok               // func(Context, Token)                        reflective
	ShCtxReqTok            // func(Context, *http.Request, Token)         reflective
	ShCtxStr               // func(Context) string
	ShCtxBytes             // func(Context) []byte
	ShCtxErr               // func(Context) error
	ShCtxIntStr            // func(Context) (int, string)
	ShCtxIntErr            // func(Context) (int, error)
	ShCtxStrErr            // func(Context) (string, error)
	ShTeapot               // func() (int, string)                        fast
	ShLogger               // LoggerInvoker(func(Context, *log.Logger))   fast
	ShRWReqTok             // func(http.ResponseWriter, *http.Request, Token)
	ShCtxRender            // func(Context, flamego.Render)  (needs Renderer earlier in the chain)
	ShMissing              // func(Context, Missing): failed dependency resolution
	ShCtxSvc               // func(Context, *AppSvc)
	ShInjector             // func(inject.Injector): reaches the Context through an interface it implements
	ShUserFast             // a user-defined inject.FastInvoker type
	ShCtxPtrStr            // func(Context) *string
	ShCtxNamedStr          // func(Context) Page      (a named string type, like template.HTML)
	ShCtxNamedBytes        // func(Context) RawDoc    (a named []byte type, like json.RawMessage)
	shMax
)

// ShapeNames for reports.
var ShapeNames = []string{"ctx", "http", "ctx+tok", "ctx+req+tok", "ctx->string", "ctx->bytes", "ctx->error", "ctx->(int,string)",
	"ctx->(int,error)", "ctx->(string,error)", "teapot", "logger-invoker", "rw+req+tok", "ctx+render", "ctx+MISSING", "ctx+svc", "injector", "user-fast-invoker", "ctx->*string", "ctx->named-string", "ctx->named-bytes"}

// ShapeHasOut reports whether the shape returns values that flamego renders.
func ShapeHasOut(sh int) bool {
	switch sh {
	case ShCtxStr, ShCtxBytes, ShCtxErr, ShCtxIntStr, ShCtxIntErr, ShCtxStrErr, ShTeapot, ShCtxPtrStr, ShCtxNamedStr, ShCtxNamedBytes:
		return true
	}
	return false
}

// ShapeHasCtx reports whether a handler of this shape can call Next().
func ShapeHasCtx(sh int) bool { return sh != ShHTTP && sh != ShTeapot && sh != ShRWReqTok }

// Panic value kinds.
const (
	PvString = iota
	PvError
	PvNilMap
	PvIndex
	PvStruct
	PvAbortHandler
	PvWrapped
	PvInt
	PvErrSlice  // an error whose dynamic type is a slice (unhashable, like validator.ValidationErrors)
	PvMap       // a map value (unhashable)
	PvFunc      // a func value (unhashable, not comparable)
	PvNilPtrErr // a typed nil pointer implementing error whose Error() dereferences it
	PvBadMapTo  // the injector's own panic: MapTo with a pointer to a non-interface
	PvEOF
	PvCtxCanceled
	PvCtxDeadline
	PvEPIPE // an error wrapping syscall.EPIPE, as a failed write to some backend yields
	PvConnReset
	PvNotExist
	PvNetClosed
	PvHandlerTimeout
	PvFormatter     // a value implementing fmt.Formatter (its rendering carries the token)
	PvPublic        // a value offering Public() string
	PvLineMapped    // a string panic raised from a //line-mapped position one line past the end of its file
	PvUnicode       // a message of a few dozen multi-byte characters (more bytes than runes)
	PvTypedNilStd   // a typed nil *fs.PathError: an error whose Error() and Unwrap() both dereference nil
	PvUnwrapPanics  // an error with a harmless Error() whose Unwrap() panics (errors.Is / errors.As on it blow up)
	PvIsPanics      // an error with a harmless Error() whose Is(target) panics
	PvInlinedHelper // an error raised through a tiny must(err) helper the compiler inlines into the handler
	PvLineNoFile    // a string panic raised from a //line-mapped position in a file that does not exist (generated code, a binary deployed without its sources)
	pvMax
)

// PanicKindNames for reports.
var PanicKindNames = []string{"string", "error", "runtime:nil-map", "runtime:index", "struct", "http.ErrAbortHandler", "wrapped-error", "int", "slice-typed-error", "map", "func", "error-with-panicking-Error()", "inject.InterfaceOf-panic", "io.EOF", "context.Canceled", "context.DeadlineExceeded", "wrapped-EPIPE", "wrapped-ECONNRESET", "fs.ErrNotExist", "net.ErrClosed", "http.ErrHandlerTimeout", "fmt.Formatter", "has-Public()", "line-mapped-past-eof", "multi-byte-message", "typed-nil-*fs.PathError", "error-with-panicking-Unwrap()", "error-with-panicking-Is()", "raised-in-inlined-helper", "line-mapped-to-missing-file"}

type brokenUnwrap struct{ tok string }

func (e *brokenUnwrap) Error() string { return e.tok }
func (e *brokenUnwrap) Unwrap() error { panic("Unwrap called on a half-built error") }

type brokenIs struct{ tok string }

func (e *brokenIs) Error() string        { return e.tok }
func (e *brokenIs) Is(target error) bool { panic("Is called on a half-built error") }

// must is small enough to be inlined: its frame exists only as inlining information.
func must(err error) {
	if err != nil {
		panic(err)
	}
}

type fmtValue struct{ tok string }

func (v fmtValue) Format(f fmt.State, c rune) { _, _ = f.Write([]byte("formatted:" + v.tok)) }

type publicValue struct{ tok string }

func (v publicValue) Public() string { return "public:" + v.tok }
func (v publicValue) Error() string  { return "internal:" + v.tok }

type errList []string

func (e errList) Error() string { return strings.Join(e, "; ") }

type fragileErr struct{ msg string }

func (e *fragileErr) Error() string { return e.msg }

type panicStruct struct {
	Tok string
	N   int
}

type wrappedErr struct {
	msg string
	err error
}

func (w *wrappedErr) Error() string { return w.msg + ": " + w.err.Error() }
func (w *wrappedErr) Unwrap() error { return w.err }

// PanicToken is the unique text embedded in the panic value raised by the
// handler at pos while serving request name (where the value can carry text).
func PanicToken(name string, pos int) string { return "PANICTOK-" + name + "-" + itoa(pos) + "-X" }

func raise(kind int, tok string, c flamego.Context) {
	switch kind {
	case PvBadMapTo:
		if c != nil {
			c.MapTo(&panicStruct{Tok: tok}, (*panicStruct)(nil)) // panics inside inject.InterfaceOf
		}
		panic(tok)
	case PvEOF:
		panic(io.EOF)
	case PvCtxCanceled:
		panic(gocontext.Canceled)
	case PvCtxDeadline:
		panic(gocontext.DeadlineExceeded)
	case PvEPIPE:
		panic(&wrappedErr{msg: tok, err: &net.OpError{Op: "write", Net: "tcp", Err: os.NewSyscallError("write", syscall.EPIPE)}})
	case PvConnReset:
		panic(&wrappedErr{msg: tok, err: &net.OpError{Op: "read", Net: "tcp", Err: os.NewSyscallError("read", syscall.ECONNRESET)}})
	case PvNotExist:
		panic(&wrappedErr{msg: tok, err: os.ErrNotExist})
	case PvNetClosed:
		panic(net.ErrClosed)
	case PvHandlerTimeout:
		panic(http.ErrHandlerTimeout)
	case PvFormatter:
		panic(fmtValue{tok})
	case PvPublic:
		panic(publicValue{tok})
	case PvLineMapped:
		raiseFromMappedLine(tok)
	case PvLineNoFile:
		raiseFromMissingFile(tok)
	case PvTypedNilStd:
		panic((*fs.PathError)(nil))
	case PvUnwrapPanics:
		panic(&brokenUnwrap{tok})
	case PvIsPanics:
		panic(&brokenIs{tok})
	case PvInlinedHelper:
		must(errors.New(tok))
	case PvUnicode:
		panic(tok + " 処理中に予期しないエラーが発生しました：データベース接続が切断されました")
	case PvString:
		panic(tok)
	case PvError:
		panic(errors.New(tok))
	case PvNilMap:
		var m map[string]int
		m[tok] = 1
	case PvIndex:
		var a []int
		_ = a[len(tok)]
	case PvStruct:
		panic(panicStruct{Tok: tok, N: 7})
	case PvAbortHandler:
		panic(http.ErrAbortHandler)
	case PvWrapped:
		panic(&wrappedErr{msg: tok, err: errors.New("inner")})
	case PvInt:
		panic(424242)
	case PvErrSlice:
		panic(errList{tok, "second"})
	case PvMap:
		panic(map[string]int{tok: 1})
	case PvFunc:
		panic(func() string { return tok })
	case PvNilPtrErr:
		var e *fragileErr
		panic(e)
	}
	panic(tok)
}

// SimH is one registered simulated handler.
type SimH struct {
	w     *World
	HID   int
	Pos   int // position in its chain
	Chain int // chain id: route index, -1 not-found chain, -2 application level
	Shape int
	Label string
	Final bool // last handler of its route: echoes after its program
}

var (
	extraType   = reflect.TypeOf(Extra(""))
	svcType     = reflect.TypeOf(&AppSvc{})
	renderType  = reflect.TypeOf((*flamego.Render)(nil)).Elem()
	labelerType = reflect.TypeOf((*Labeler)(nil)).Elem()
	namerType   = reflect.TypeOf((*Namer)(nil)).Elem()
)

func (h *SimH) body(q *Req, n int) []byte {
	s := "<" + q.Name + "." + itoa(h.Pos) + ">"
	for len(s) < n {
		s += "."
	}
	return []byte(s)
}

// run executes the program of the current request at this handler.
func (h *SimH) run(c flamego.Context, rw http.ResponseWriter, r *http.Request, tok string) (ret Ret, q *Req) {
	if c != nil {
		if r == nil {
			r = c.Request().Request
		}
		if rw == nil {
			rw = c.ResponseWriter()
		}
	}
	q = h.w.reqOf(r)
	sched.Yield(SiteEnter)
	q.ev(EvEnter, h.HID, h.Pos, tok)
	finished := false
	defer func() {
		if !finished {
			q.ev(EvPanicOut, h.HID, 0, "")
		}
	}()
	var prog []Act
	if h.Pos < len(q.Progs) {
		prog = q.Progs[h.Pos]
	}
	for _, a := range prog {
		sched.Yield(SiteAct)
		h.do(q, c, rw, r, a)
	}
	if h.Final && rw != nil && h.w.Setup.FinalEcho {
		sched.Yield(SiteAct)
		q.ev(EvAttempt, h.HID, OpEcho, "")
		_, _ = rw.Write([]byte(h.echo(q, c, r)))
	}
	if h.Pos < len(q.Rets) {
		ret = q.Rets[h.Pos]
	}
	sched.Yield(SiteExit)
	if ShapeHasOut(h.Shape) {
		q.ev(EvRet, h.HID, ret.Kind*1000+ret.Code, "k"+itoa(ret.Kind))
	}
	q.ev(EvExit, h.HID, 0, "")
	finished = true
	return ret, q
}

func (h *SimH) do(q *Req, c flamego.Context, rw http.ResponseWriter, r *http.Request, a Act) {
	// attempt: the handler writes to the response proper (not to a substitute writer some
	// middleware mapped for later handlers)
	attempt := func() {
		if q.substituted && (c == nil || rw != http.ResponseWriter(c.ResponseWriter())) {
			return
		}
		q.ev(EvAttempt, h.HID, int(a.Op), "")
	}
	switch a.Op {
	case OpYield:
	case OpWriteHeader:
		if rw != nil {
			if a.A >= 100 && a.A <= 999 {
				attempt()
			}
			rw.WriteHeader(int(a.A))
		}
	case OpWrite:
		if rw != nil {
			attempt()
			_, _ = rw.Write(h.body(q, int(a.A)))
		}
	case OpFlush:
		if f, ok := rw.(http.Flusher); ok {
			attempt()
			if a.A%2 == 1 {
				// the way handlers written against Go 1.20+ flush: through a ResponseController, which
				// prefers FlushError() and unwraps writers that offer Unwrap()
				_ = http.NewResponseController(rw).Flush()
			} else {
				f.Flush()
			}
		}
	case OpMapIface:
		if c != nil {
			c.MapTo(reqLabel("label-"+q.Name), (*Labeler)(nil))
		}
	case OpSeeIface:
		if c != nil {
			if v := c.Value(labelerType); v.IsValid() {
				q.Note("labeler=" + v.Interface().(Labeler).Label())
			} else {
				q.Note("labeler=none")
			}
		}
	case OpInvoke:
		if c != nil {
			_, err := c.Invoke(func(t Token, cc flamego.Context) {
				same := "same-ctx"
				if cc != c {
					same = "OTHER-CTX"
				}
				q.Note("invoke:tok=" + string(t) + "," + same)
			})
			if err != nil {
				q.Note("invoke:err")
			}
		}
	case OpApply:
		if c != nil {
			var dst struct {
				T Token         `inject:""`
				R *http.Request `inject:""`
			}
			if err := c.Apply(&dst); err != nil {
				q.Note("apply:err")
			} else {
				rq := "none"
				if dst.R != nil {
					rq = dst.R.Header.Get("X-Req")
				}
				q.Note("apply:tok=" + string(dst.T) + ",req=" + rq)
			}
		}
	case OpExpireCtx:
		if c != nil && q.Local.CancelledAt < 0 {
			ctx, cancel := gocontext.WithDeadline(gocontext.Background(), time.Unix(1, 0))
			c.Request().Request = c.Request().WithContext(ctx)
			q.replaceCancel(cancel)
			q.ev(EvCancel, h.HID, 1, "deadline")
			q.Local.CancelledAt = q.Local.CIdx
			q.Local.CancelAt = -1
		}
	case OpMapOwnWriter:
		if c != nil && !q.substituted && h.w.allowSubstitute {
			sp := NewSpy(&Req{Name: q.Name + "-substitute"})
			sp.refuseTo = q // a status the substitute refuses is still a panic in this request
			sub := flamego.NewResponseWriter(c.Request().Method, sp)
			c.MapTo(sub, (*http.ResponseWriter)(nil))
			q.substituted = true
			q.Note("writer-substituted")
		}
	case OpSeeNamer:
		if c != nil {
			if v := c.Value(namerType); v.IsValid() {
				q.Note("namer=" + v.Interface().(Namer).SvcName())
			} else {
				q.Note("namer=none")
			}
		}
	case OpHTTPError:
		if rw != nil {
			attempt()
			http.Error(rw, "denied "+q.Name, http.StatusForbidden)
		}
	case OpHijack:
		if hj, ok := rw.(http.Hijacker); ok {
			if _, _, err := hj.Hijack(); err != nil {
				q.Note("hijack:refused")
			} else {
				q.Note("hijack:ok")
			}
		}
	case OpCopy:
		if rw != nil {
			attempt()
			_, _ = io.Copy(rw, struct{ io.Reader }{strings.NewReader(string(h.body(q, int(a.A))))})
		}
	case OpNestedServe:
		if c != nil && q.Sub != nil && h.w.Setup.NestedRoute && !q.substituted {
			m := "POST"
			if r != nil && r.Method == "POST" {
				m = "GET"
			}
			sub := (&http.Request{Method: m, URL: &url.URL{Path: "/__nested"}, Header: http.Header{"X-Req": {q.Sub.Name}},
				Proto: "HTTP/1.1", ProtoMajor: 1, ProtoMinor: 1, Host: "sim", RequestURI: "/__nested", Body: http.NoBody}).WithContext(gocontext.Background())
			attempt()
			q.Note("nested-serve(")
			l := sched.CurrentLocal()
			if l != nil {
				l.Ref = q.Sub
			}
			func() {
				defer func() {
					if l != nil {
						l.Ref = q
					}
					q.Note(")nested-serve")
				}()
				h.w.F.ServeHTTP(c.ResponseWriter(), sub)
			}()
		}
	case OpSetCT:
		if rw != nil {
			rw.Header().Set("Content-Type", "application/json")
		}
	case OpSetCL:
		if rw != nil {
			rw.Header().Set("Content-Length", "4096")
		}
	case OpSeePath:
		if r != nil {
			q.Note("sees=" + r.Method + " " + r.URL.Path + "?" + r.URL.RawQuery)
		}
	case OpSeeBody:
		if c != nil && q.Staged {
			q.Note("body:not-read(staged)")
		} else if c != nil {
			b, err := c.Request().Body().String()
			if err != nil {
				q.Note("body:err")
			} else {
				q.Note("body=" + b)
			}
		}
	case OpMapRH:
		if c != nil {
			name := q.Name
			boom := a.A == 1
			hid, pos := h.HID, h.Pos
			q.ev(EvRHMapped, h.HID, 0, "")
			c.Map(flamego.ReturnHandler(func(cc flamego.Context, vals []reflect.Value) {
				q.ev(EvRHCall, hid, 0, "")
				if boom {
					_ = hid
					q.ev(EvRaise, -1, PvString, "") // attributed to the handler whose return value is being rendered
					panic(PanicToken(name, pos))
				}
				s := "RH[" + name + "]"
				for _, v := range vals {
					if v.Kind() == reflect.String {
						s += ":" + v.String()
					}
				}
				_, _ = cc.ResponseWriter().Write([]byte(s))
			}))
		}
	case OpMutQuery:
		if c != nil {
			l := c.QueryStrings("q")
			q.Note("qs=" + strings.Join(l, ","))
			for i := range l {
				l[i] = "MUTATED-BY-" + q.Name
			}
		}
	case OpReplaceCtx:
		if c != nil {
			ctx, cancel := gocontext.WithCancel(c.Request().Context())
			c.Request().Request = c.Request().WithContext(ctx)
			q.replaceCancel(cancel)
			q.Note("ctx-replaced")
		}
	case OpNext:
		if c != nil {
			q.ev(EvNextCall, h.HID, 0, "")
			ok := false
			func() {
				defer func() {
					if !ok {
						q.ev(EvNextPanic, h.HID, 0, "")
					}
				}()
				c.Next()
				ok = true
			}()
			q.ev(EvNextRet, h.HID, 0, "")
		}
	case OpNextSwallow:
		if c != nil {
			q.ev(EvNextCall, h.HID, 0, "")
			func() {
				defer func() {
					if p := recover(); p != nil {
						if _, isAbort := p.(sched.Abort); isAbort {
							panic(p)
						}
						q.ev(EvSwallow, h.HID, 0, "")
					}
				}()
				c.Next()
			}()
			q.ev(EvNextRet, h.HID, 0, "")
		}
	case OpCancel:
		if q.rawCancel != nil && q.Local.CancelledAt < 0 {
			q.ev(EvCancel, h.HID, 1, "")
			q.Local.CancelledAt = q.Local.CIdx
			q.Local.CancelAt = -1
			q.rawCancel()
		}
	case OpMapExtra:
		if c != nil {
			c.Map(Extra("extra-" + q.Name))
		}
	case OpSeeExtra:
		if c != nil {
			if v := c.Value(extraType); v.IsValid() {
				q.Note("extra=" + v.String())
			} else {
				q.Note("extra=none")
			}
		}
	case OpPanic:
		q.ev(EvRaise, h.HID, int(a.A), "")
		raise(int(a.A), PanicToken(q.Name, h.Pos), c)
	case OpEcho:
		if rw != nil {
			attempt()
			_, _ = rw.Write([]byte(h.echo(q, c, r)))
		}
	case OpMark:
		if c != nil && c.Params() != nil {
			c.Params()["__m"] = q.Name
		}
	case OpCheckMark:
		if c != nil {
			q.Note("mark=" + c.Param("__m"))
		}
	case OpSetHeader:
		if rw != nil {
			rw.Header().Set("X-Sim-"+itoa(h.Pos), q.Name)
		}
	case OpBefore:
		if c != nil {
			id := int(a.A)
			c.ResponseWriter().Before(func(w flamego.ResponseWriter) {
				sched.Yield(SiteBefore)
				q.ev(EvBefore, h.HID, id, itoa(w.Status()))
				if id < 0 {
					q.ev(EvRaise, h.HID, -1, "")
					panic(PanicToken(q.Name, h.Pos))
				}
				w.Header().Add("X-Before", q.Name+"."+itoa(id))
			})
		}
	case OpRender:
		if c != nil {
			if v := c.Value(renderType); v.IsValid() {
				rd := v.Interface().(flamego.Render)
				switch a.A % 4 {
				case 0:
					rd.PlainText(200+int(a.A/4), "plain-"+q.Name)
				case 1:
					rd.JSON(200+int(a.A/4), map[string]string{"req": q.Name})
				case 2:
					rd.Binary(200+int(a.A/4), []byte("bin-"+q.Name))
				case 3:
					rd.XML(200+int(a.A/4), struct{ Req string }{q.Name})
				}
			}
		}
	case OpRedirect:
		if c != nil {
			if !q.substituted {
				q.ev(EvAttempt, h.HID, int(a.Op), "")
			}
			c.Redirect("/to/" + q.Name)
		}
	case OpStatus:
		if c != nil {
			w := c.ResponseWriter()
			wr := "f"
			if w.Written() {
				wr = "t"
			}
			q.Note("st=" + itoa(w.Status()) + "/" + wr + "/" + itoa(w.Size()))
		}
	case OpCookie:
		if c != nil {
			c.SetCookie(http.Cookie{Name: "ck" + itoa(h.Pos), Value: q.Name})
		}
	case OpSeeHeaders:
		if rw != nil {
			keys := make([]string, 0, 4)
			for k := range rw.Header() {
				keys = append(keys, k)
			}
			sort.Strings(keys)
			q.Note("headers=" + strings.Join(keys, ","))
		}
	case OpSeeSvc:
		if c != nil {
			if v := c.Value(svcType); v.IsValid() {
				q.Note("svc=" + v.Interface().(*AppSvc).Name)
			} else {
				q.Note("svc=none")
			}
		}
	}
}

// echo renders everything request-specific the handler can observe.
func (h *SimH) echo(q *Req, c flamego.Context, r *http.Request) string {
	var sb strings.Builder
	sb.WriteString("echo req=" + q.Name + " h=" + h.Label)
	if r != nil {
		sb.WriteString(" hdr=" + r.Header.Get("X-Req") + " path=" + r.URL.Path)
	}
	if c == nil {
		return sb.String()
	}
	sb.WriteString(" route=" + c.Param("route"))
	keys := make([]string, 0, 4)
	for k := range c.Params() {
		keys = append(keys, k)
	}
	sort.Strings(keys)
	for _, k := range keys {
		sb.WriteString(" p." + k + "=" + c.Param(k))
	}
	if len(keys) > 0 {
		sb.WriteString(" pint=" + itoa(c.ParamInt(keys[0])))
	}
	if name := h.w.routeName(h.Chain); name != "" {
		var pairs []string
		for _, k := range keys {
			if k != "route" && k != "__m" {
				pairs = append(pairs, k, c.Param(k))
			}
		}
		sb.WriteString(" url=" + c.URLPath(name, pairs...))
	}
	if v := c.Value(extraType); v.IsValid() {
		sb.WriteString(" extra=" + v.String())
	} else {
		sb.WriteString(" extra=none")
	}
	sb.WriteString(" q=" + c.Query("q") + " remote=" + c.RemoteAddr() + " cookie=" + c.Cookie("ck"))
	return sb.String()
}

func retString(q *Req, pos int, k int) string {
	if k == 0 {
		return ""
	}
	return "ret-" + q.Name + "-" + itoa(pos)
}

func retErr(q *Req, pos int, k int) error {
	if k != 2 {
		return nil
	}
	return errors.New("err-" + q.Name + "-" + itoa(pos))
}

// Page and RawDoc are the named string / byte-slice types applications return (template.HTML,
// json.RawMessage, ...).
type (
	Page   string
	RawDoc []byte
)

// RetRenders: a handler of this shape returning with return kind k (0 zero values, 1 text, 2 error)
// hands the ReturnHandler something it renders by writing.
func RetRenders(sh, k int) bool {
	switch sh {
	case ShCtxIntStr, ShCtxIntErr, ShTeapot:
		return true // the status is sent whatever follows it
	case ShCtxErr:
		return k == 2
	case ShCtxStr, ShCtxBytes, ShCtxStrErr, ShCtxPtrStr, ShCtxNamedStr, ShCtxNamedBytes:
		return k != 0
	}
	return false
}

// userFast is a FastInvoker type defined outside flamego.
type userFast func(c flamego.Context)

// Invoke implements inject.FastInvoker.
func (f userFast) Invoke(args []interface{}) ([]reflect.Value, error) {
	f(args[0].(flamego.Context))
	return nil, nil
}

// handler returns the Go function registered with flamego for h.
func (h *SimH) handler() flamego.Handler {
	switch h.Shape {
	case ShCtx:
		return func(c flamego.Context) { h.run(c, nil, nil, "") }
	case ShHTTP:
		return func(w http.ResponseWriter, r *http.Request) { h.run(nil, w, r, "") }
	case ShCtxTok:
		return func(c flamego.Context, t Token) { h.run(c, nil, nil, string(t)) }
	case ShCtxReqTok:
		return func(c flamego.Context, r *http.Request, t Token) { h.run(c, nil, r, string(t)) }
	case ShCtxStr:
		return func(c flamego.Context) string {
			rt, q := h.run(c, nil, nil, "")
			return retString(q, h.Pos, rt.Kind)
		}
	case ShCtxBytes:
		return func(c flamego.Context) []byte {
			rt, q := h.run(c, nil, nil, "")
			if rt.Kind == 0 {
				return nil
			}
			return []byte(retString(q, h.Pos, 1))
		}
	case ShCtxErr:
		return func(c flamego.Context) error {
			rt, q := h.run(c, nil, nil, "")
			return retErr(q, h.Pos, rt.Kind)
		}
	case ShCtxIntStr:
		return func(c flamego.Context) (int, string) {
			rt, q := h.run(c, nil, nil, "")
			return rt.Code, retString(q, h.Pos, rt.Kind)
		}
	case ShCtxIntErr:
		return func(c flamego.Context) (int, error) {
			rt, q := h.run(c, nil, nil, "")
			return rt.Code, retErr(q, h.Pos, rt.Kind)
		}
	case ShCtxStrErr:
		return func(c flamego.Context) (string, error) {
			rt, q := h.run(c, nil, nil, "")
			return retString(q, h.Pos, rt.Kind), retErr(q, h.Pos, rt.Kind)
		}
	case ShTeapot:
		return func() (int, string) {
			rt, q := h.run(nil, nil, nil, "")
			return rt.Code, retString(q, h.Pos, rt.Kind)
		}
	case ShLogger:
		return flamego.LoggerInvoker(func(c flamego.Context, _ *log.Logger) { h.run(c, nil, nil, "") })
	case ShRWReqTok:
		return func(w http.ResponseWriter, r *http.Request, t Token) { h.run(nil, w, r, string(t)) }
	case ShCtxRender:
		return func(c flamego.Context, _ flamego.Render) { h.run(c, nil, nil, "") }
	case ShMissing:
		return func(c flamego.Context, _ Missing) { h.run(c, nil, nil, "") }
	case ShCtxSvc:
		return func(c flamego.Context, s *AppSvc) { h.run(c, nil, nil, "svc:"+s.Name) }
	case ShInjector:
		return func(i inject.Injector) {
			c, _ := i.(flamego.Context)
			h.run(c, nil, nil, "")
		}
	case ShUserFast:
		return userFast(func(c flamego.Context) { h.run(c, nil, nil, "") })
	case ShCtxPtrStr:
		return func(c flamego.Context) *string {
			rt, q := h.run(c, nil, nil, "")
			if rt.Kind == 0 {
				return nil
			}
			s := retString(q, h.Pos, 1)
			return &s
		}
	case ShCtxNamedStr:
		return func(c flamego.Context) Page {
			rt, q := h.run(c, nil, nil, "")
			return Page(retString(q, h.Pos, rt.Kind))
		}
	case ShCtxNamedBytes:
		return func(c flamego.Context) RawDoc {
			rt, q := h.run(c, nil, nil, "")
			if rt.Kind == 0 {
				return nil
			}
			return RawDoc(retString(q, h.Pos, 1))
		}
	}
	panic("unknown shape")
}
