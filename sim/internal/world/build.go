package world

import (
	"net/http"
	"reflect"

	"github.com/charmbracelet/log"

	"github.com/flamego/flamego"

	"verif/sim/internal/sched"
)

// ActionPos is the program slot of the application's final action handler
// (its chain position depends on the route, its program slot does not).
const ActionPos = 15

// MaxPos is the number of program slots per request.
const MaxPos = 16

// World is one flamego instance built from a Setup plus the requests it will
// serve.
type World struct {
	Setup  *Setup
	F      *flamego.Flame
	reqs   map[string]*Req
	Sims   []*SimH
	Chains map[int][]int   // chain id -> hids in chain order (simulated handlers only)
	Full   map[int][]Entry // chain id -> every handler in chain order
	names  map[int]string
	// allowSubstitute: handlers may map their own writer as the http.ResponseWriter service. Off
	// when the set-up contains Recovery or a handler whose dependencies cannot be resolved: both
	// would then answer into the substitute, out of the oracles' sight.
	allowSubstitute bool
	// RegErrors lists registrations flamego rejected (deterministic, reported).
	RegErrors []string
}

// Entry is one handler of a chain: a simulated one (HID>=0) or a built-in.
type Entry struct {
	Kind  int
	HID   int
	Shape int
}

// BuildOpts carries the environment-dependent parts of a build.
type BuildOpts struct {
	FS       http.FileSystem
	Dir      string
	OtherDir string // a directory outside the served one (for a second, unmounted Static instance)
	Expires  func() string
	Cache    func() string
}

var envs = []flamego.EnvType{flamego.EnvTypeDev, flamego.EnvTypeProd, flamego.EnvTypeTest}

//go:norace
func (w *World) reqOf(r *http.Request) *Req {
	if r != nil {
		if q := w.reqs[r.Header.Get("X-Req")]; q != nil {
			return q
		}
	}
	if l := sched.CurrentLocal(); l != nil {
		if q, ok := l.Ref.(*Req); ok {
			return q
		}
	}
	return w.reqs[""]
}

func (w *World) routeName(chain int) string { return w.names[chain] }

// SimByHID returns the handler with the given id.
func (w *World) SimByHID(h int) *SimH { return w.Sims[h] }

func (w *World) newSim(spec HSpec, pos, chain int, label string) *SimH {
	h := &SimH{w: w, HID: len(w.Sims), Pos: pos, Chain: chain, Shape: spec.Shape, Label: label}
	w.Sims = append(w.Sims, h)
	return h
}

// Build constructs the instance. It must run before any task starts.
func Build(s *Setup, reqs []*Req, o BuildOpts) *World {
	w := &World{Setup: s, reqs: map[string]*Req{}, Chains: map[int][]int{}, Full: map[int][]Entry{}, names: map[int]string{}}
	for _, q := range reqs {
		w.reqs[q.Name] = q
	}
	w.reqs[""] = &Req{Name: "?"} // sink for handlers that cannot be attributed
	if s.EnvLate {
		flamego.SetEnv(envs[(s.Env+1)%3])
		defer flamego.SetEnv(envs[s.Env])
	} else {
		flamego.SetEnv(envs[s.Env])
	}
	if s.BogusEnv {
		// "all else ignored": an invalid value must leave every environment-dependent behaviour as it is
		defer flamego.SetEnv(flamego.EnvType([]string{"", "prod", "staging"}[s.Env%3]))
	}
	f := flamego.NewWithLogger(Sink{})
	w.F = f
	if s.Svc {
		f.Map(&AppSvc{Name: "svc-app"})
	}
	f.AutoHead(s.AutoHead)
	if s.Wrapper {
		rec := s.WrapperRec
		f.HandlerWrapper(func(h flamego.Handler) flamego.Handler {
			hv := reflect.ValueOf(h)
			if !rec || hv.Kind() != reflect.Func || hv.Type().IsVariadic() {
				return h
			}
			// Same signature, so dependency injection is unaffected; each call leaves a note, so a
			// handler wrapped twice (or not at all) answers differently from one wrapped once.
			return reflect.MakeFunc(hv.Type(), func(args []reflect.Value) []reflect.Value {
				if l := sched.CurrentLocal(); l != nil {
					if q, ok := l.Ref.(*Req); ok && q != nil {
						q.Note("via-wrapper")
					}
				}
				return hv.Call(args)
			}).Interface()
		})
	}
	for i := 0; i < s.Befores; i++ {
		stop := s.BeforeStop && i == s.Befores-1
		f.Before(func(_ http.ResponseWriter, r *http.Request) bool {
			sched.Yield(SiteBeforeH)
			if stop && r.Header.Get("X-Stop") != "" {
				w.reqOf(r).Note("stopped-by-before-handler")
				return true
			}
			return false
		})
	}

	var appSims []Entry
	mk := func(spec HSpec, pos, chain int, label string, sims *[]Entry) flamego.Handler {
		if spec.Kind != HkSim {
			*sims = append(*sims, Entry{Kind: spec.Kind, HID: -1})
		}
		switch spec.Kind {
		case HkLogger:
			return flamego.Logger()
		case HkRecovery:
			// Recovery itself is flamego's, unmodified; the wrapper only records when it is
			// invoked and when it returns, so that oracles know its dynamic extent.
			rec := flamego.Recovery().(flamego.LoggerInvoker)
			return flamego.LoggerInvoker(func(c flamego.Context, l *log.Logger) {
				q := w.reqOf(c.Request().Request)
				q.ev(EvRecEnter, 0, 0, "")
				defer q.ev(EvRecExit, 0, 0, "")
				rec(c, l)
			})
		case HkRenderer:
			return flamego.Renderer()
		case HkStatic:
			opt := flamego.StaticOptions{Prefix: s.Static.Prefix, Index: s.Static.Index, SetETag: s.Static.ETag, EnableLogging: s.Static.Logging}
			switch {
			case s.Static.DefaultDir:
				// neither Directory nor FileSystem: flamego's documented default, "public" below
				// the working directory
			case s.Static.UseDirectory:
				opt.Directory = o.Dir
			default:
				opt.FileSystem = o.FS
				if s.Static.AlsoDirectory {
					opt.Directory = o.OtherDir // documented: ignored when FileSystem is set
				}
			}
			if s.Static.Expires {
				opt.Expires = o.Expires
			}
			if s.Static.CacheControl {
				opt.CacheControl = o.Cache
			}
			// The options travel in a caller-owned slice that is reused afterwards for a second,
			// never mounted instance rooted elsewhere: the first instance must keep its own
			// configuration.
			cfg := []flamego.StaticOptions{opt}
			h := flamego.Static(cfg...)
			if o.OtherDir != "" {
				cfg[0] = flamego.StaticOptions{Directory: o.OtherDir, Prefix: "/admin", Index: "secret.txt"}
				_ = flamego.Static(cfg...)
			}
			return h
		case HkReqLogger:
			return func(c flamego.Context, r *http.Request) {
				q := w.reqOf(r)
				c.Map(log.NewWithOptions(sinkFor(q), log.Options{Level: log.DebugLevel, Prefix: q.Name}))
			}
		case HkUpstreamHeaders:
			return func(rw http.ResponseWriter) {
				rw.Header().Set("Content-Type", "application/x-upstream")
				rw.Header().Set("X-Upstream", "1")
			}
		case HkToken:
			return func(c flamego.Context, r *http.Request) {
				q := w.reqOf(r)
				sched.Yield(SiteToken)
				c.Map(Token("tok-" + q.Name))
				if r.Header.Get("X-Extra") != "" {
					c.Map(Extra("extra-" + q.Name))
				}
				c.ResponseWriter().Header().Set("X-Echo-Req", q.Name)
			}
		}
		h := w.newSim(spec, pos, chain, label)
		*sims = append(*sims, Entry{Kind: HkSim, HID: h.HID, Shape: spec.Shape})
		return h.handler()
	}

	// Application middleware, in the recorded Use() batches.
	var mws []flamego.Handler
	for i, spec := range s.Mw {
		mws = append(mws, mk(spec, i, -2, "mw"+itoa(i), &appSims))
	}
	early := mws
	var late []flamego.Handler
	if s.LateMw > 0 && s.LateMw < len(mws) {
		early, late = mws[:len(mws)-s.LateMw], mws[len(mws)-s.LateMw:]
	}
	if s.ViaHandlers {
		// a throw-away stack first; Handlers() must replace it completely
		f.Use(func() {}, func() {})
		f.Handlers(early...)
	} else {
		at := 0
		for _, b := range s.Batches {
			if at+b > len(early) {
				b = len(early) - at
			}
			if b <= 0 {
				break
			}
			f.Use(early[at : at+b]...)
			at += b
		}
		if at < len(early) {
			f.Use(early[at:]...)
		}
	}
	base := len(s.Mw)

	var action []Entry
	if s.Action != nil {
		f.Action(mk(*s.Action, ActionPos, -2, "action", &action))
	}
	setChain := func(id int, l []Entry) {
		l = append(l, action...)
		w.Full[id] = l
		var hs []int
		for _, e := range l {
			if e.HID >= 0 {
				hs = append(hs, e.HID)
			}
		}
		w.Chains[id] = hs
	}
	if s.NotFound != nil {
		sims := append([]Entry{}, appSims...)
		var hs []flamego.Handler
		for i, spec := range s.NotFound {
			hs = append(hs, mk(spec, base+i, -1, "nf"+itoa(i), &sims))
		}
		if s.NotFoundTwice {
			f.NotFound(func() {})
		}
		f.NotFound(hs...)
		setChain(-1, sims)
	} else {
		setChain(-1, append([]Entry{}, appSims...))
	}

	var walk func(nodes []Node, pos int, groupSims []Entry)
	walk = func(nodes []Node, pos int, groupSims []Entry) {
		for _, n := range nodes {
			if n.Group != nil {
				g := n.Group
				sims := append([]Entry{}, groupSims...)
				var hs []flamego.Handler
				for i, spec := range g.Hs {
					hs = append(hs, mk(spec, pos+i, -2, "g"+g.Path+itoa(i), &sims))
				}
				f.Group(g.Path, func() { walk(g.Nodes, pos+len(g.Hs), sims) }, hs...)
				continue
			}
			r := n.Route
			sims := append([]Entry{}, groupSims...)
			var hs []flamego.Handler
			for i, spec := range r.Hs {
				hs = append(hs, mk(spec, pos+i, r.Index, "r"+itoa(r.Index)+"h"+itoa(i), &sims))
				if i == len(r.Hs)-1 && spec.Kind == HkSim {
					w.Sims[len(w.Sims)-1].Final = true
				}
			}
			var rt *flamego.Route
			func() {
				defer func() {
					if p := recover(); p != nil {
						w.RegErrors = append(w.RegErrors, r.Method+" "+r.Full)
					}
				}()
				f.AutoHead(r.AutoHead)
				switch r.Method {
				case "ROUTES-STR":
					rt = f.Routes(r.Pattern, "GET", append([]flamego.Handler{"POST"}, hs...)...)
				case "GET":
					rt = f.Get(r.Pattern, hs...)
				case "POST":
					rt = f.Post(r.Pattern, hs...)
				case "*":
					rt = f.Any(r.Pattern, hs...)
				case "GET,POST":
					rt = f.Routes(r.Pattern, "GET,POST", hs...)
				case "COMBO":
					cb := f.Combo(r.Pattern, hs[:len(hs)-1]...).Get(hs[len(hs)-1]).Post(hs[len(hs)-1])
					if r.Name != "" {
						cb.Name(r.Name)
						w.names[r.Index] = r.Name
					}
					if r.Headers != nil {
						// ComboRoute exposes no Headers(); leave unconstrained.
						r.Headers = nil
					}
					return
				default:
					rt = f.Route(r.Method, r.Pattern, hs)
				}
				if r.Headers != nil {
					rt.Headers(r.Headers...)
				}
				if r.Name != "" {
					rt.Name(r.Name)
					w.names[r.Index] = r.Name
				}
			}()
			setChain(r.Index, append(append([]Entry{}, appSims...), sims...))
		}
	}
	walk(s.Nodes, base, nil)
	if s.NestedRoute {
		f.Routes("/__nested", "GET,POST", func(rw http.ResponseWriter) { _, _ = rw.Write([]byte("nested")) })
	}
	if len(late) > 0 {
		f.Use(late...) // middleware added after the routes exist still precedes every route's handlers
	}
	w.allowSubstitute = true
	for _, l := range w.Full {
		for _, e := range l {
			if e.Kind == HkRecovery || (e.HID >= 0 && e.Shape == ShMissing) {
				w.allowSubstitute = false
			}
		}
	}
	return w
}

// Replace registers q under its name (used for serial probes after a run).
func (w *World) Replace(q *Req) { w.reqs[q.Name] = q }
