package world

import (
	"strings"

	"verif/sim/internal/eng"
	"verif/sim/internal/sched"
	"verif/sim/internal/tape"
)

// PickPolicy draws a schedule policy from the swarm stream.
func PickPolicy(sw *tape.Stream, cfg *sched.Config) {
	switch sw.Weighted(1, 4, 4, 3) {
	case 0:
		cfg.Policy = sched.PolRunToCompletion
	case 1:
		cfg.Policy = sched.PolUniform
	case 2:
		cfg.Policy = sched.PolSticky
		cfg.SwitchPermille = []int{100, 300, 600}[sw.Intn(3)]
		if AutoMode {
			// statement-level steps are ~25 times finer: keep bursts comparable to a request's length
			cfg.SwitchPermille = []int{4, 15, 60, 300}[sw.Intn(4)]
		}
	case 3:
		cfg.Policy = sched.PolPCT
		cfg.PCTDepth = 1 + sw.Intn(3)
		cfg.PCTHorizon = 40 + sw.Intn(200)
		if AutoMode {
			cfg.PCTHorizon *= 25
		}
	}
}

// GenArrivals turns a closed workload (every task issues its requests back to back) into an
// open one: each request gets an arrival offset / think time on the virtual clock, drawn from
// the "arrival" stream. The number of requests in flight then rises and falls during the run
// instead of staying at the number of tasks, which is what anything an instance keeps per
// request in flight (free lists, pools, slot tables) needs in order to be exercised.
func GenArrivals(arr *tape.Stream, reqs [][]*Req) {
	scale := int64(1)
	if AutoMode {
		scale = 25 // statement-level steps are that much finer; keep think times comparable to request lengths
	}
	for _, l := range reqs {
		for _, q := range l {
			switch arr.Weighted(4, 3, 2, 1) {
			case 1:
				q.Think = scale * int64(1+arr.Intn(80))
			case 2:
				q.Think = scale * int64(80+arr.Intn(800))
			case 3:
				q.Think = scale * int64(800+arr.Intn(8000))
			}
		}
	}
}

// SleepFn returns the scheduler's Sleep callback for reqs: a task that has parked at the
// request boundary sleeps for the think time of the request it is about to issue. cur[task]
// must already name that request (OnYield runs first); started is moved along so that virtual
// deadlines count from the moment the request is issued.
func SleepFn(reqs [][]*Req, cur []int, started []int64, res *eng.Result) func(task, site int, now int64) int64 {
	return func(task, site int, now int64) int64 {
		if site != SiteReq {
			return 0
		}
		k := cur[task]
		if k < 0 || k >= len(reqs[task]) {
			return 0
		}
		d := reqs[task][k].Think
		if d > 0 {
			started[task] += d
		}
		return d
	}
}

// NoteClock copies the virtual-clock figures of a scheduler run into res.
func NoteClock(sr *sched.Result, res *eng.Result) {
	if sr.TimersArmed > 0 {
		res.Probes["virtual_timers_armed_by_the_code_under_test"] += sr.TimersArmed
		res.Probes["virtual_timers_stopped_before_due"] += sr.TimersStopped
		res.Faults["virtual-timer-fired"] += sr.TimersFired
	}
	if sr.Sleeps > 0 {
		res.Probes["open_workload_runs"]++
		res.Probes["think_time_sleeps"] += sr.Sleeps
		res.Probes["virtual_clock_jumps"] += sr.ClockJumps
	}
}

// RunTasks serves reqs[i] in order on task i under the scheduler, delivering
// virtual deadlines as asynchronous cancels, and copies the scheduler's
// figures into res.
func (w *World) RunTasks(reqs [][]*Req, cfg sched.Config, res *eng.Result) *sched.Result {
	n := len(reqs)
	cur := make([]int, n)
	started := make([]int64, n)
	fired := make([]bool, n)
	for i := range cur {
		cur[i] = -1
	}
	cfg.OnYield = func(task, site int, now int64) {
		if site == SiteReq {
			cur[task]++
			started[task] = now
			fired[task] = false
		}
	}
	cfg.WakeCmd = func(task int, now int64) int {
		k := cur[task]
		if k < 0 || k >= len(reqs[task]) || fired[task] {
			return 0
		}
		if d := reqs[task][k].Deadline; d > 0 && now-started[task] >= d {
			fired[task] = true
			return sched.CmdCancel
		}
		return 0
	}
	cfg.Sleep = SleepFn(reqs, cur, started, res)
	// slow node: one task may stall at an arbitrary step while one or two whole requests of other
	// tasks run to completion, and resume right after (see conc)
	if cfg.StallPermille == 0 {
		cfg.StallSite, cfg.StallPermille, cfg.StallHorizon = SiteReq, 150, 120
		if AutoMode {
			cfg.StallPermille, cfg.StallHorizon = 400, 3000
		}
	}
	bodies := make([]func(*sched.Task), n)
	for i := range bodies {
		i := i
		bodies[i] = func(t *sched.Task) {
			for _, q := range reqs[i] {
				t.SetLocal(&q.Local)
				sched.Yield(SiteReq)
				w.Serve(q)
			}
			t.SetLocal(nil)
		}
	}
	sr := sched.Run(cfg, bodies)
	NoteClock(sr, res)
	res.Steps, res.Ticks, res.Switches = sr.Steps, sr.Ticks, sr.Switches
	res.SchedHash, res.SwitchHash, res.SwitchPairs, res.Sites = sr.SchedHash, sr.SwitchHash, sr.SwitchPairs, sr.SiteHits
	res.Blocked = sr.BlockedHandovers
	res.Faults["stalled-task"] += sr.Stalls
	res.Probes["stall_ended_by_progress_of_others"] += sr.StallThaws
	for st, n := range sr.BlockedStates {
		res.Probes["blocked_outside_in_state:"+st] += n
	}
	res.Poisoned = sr.Deadlock
	return sr
}

// ServeSolo serves q alone on the calling goroutine, outside any scheduler run.
func (w *World) ServeSolo(q *Req) {
	q.Local.SoloCap = StepCap(20000)
	sched.SetSolo(&q.Local)
	w.Serve(q)
	sched.SetSolo(nil)
}

// CountFaults adds the faults that actually fired in q to res.
func CountFaults(q *Req, res *eng.Result) (any bool) {
	if q.Staged && q.Body != "" {
		res.Probes["requests_with_staged_body"]++
	}
	for _, e := range q.Events {
		switch e.K {
		case EvCancel:
			any = true
			if e.A == 0 {
				res.Faults["cancel-async"]++
			} else {
				res.Faults["cancel-self"]++
			}
		case EvRaise:
			any = true
			if e.A >= 0 && int(e.A) < len(PanicKindNames) {
				res.Faults["panic:"+PanicKindNames[e.A]]++
			} else {
				res.Faults["panic:in-before-func"]++
			}
		case EvSpyWrite:
			if e.S != "" {
				any = true
				res.Faults["write-"+e.S]++
			}
		case EvSpyRefuse:
			any = true
			res.Faults["bad-status"]++
		case EvNote:
			if e.S == "body:read-blocks-until-verdict" {
				any = true
				res.Faults["staged-body-read-blocked"]++
			}
		}
	}
	return
}

// TraceLines renders set-up, requests and schedule for reports.
func TraceLines(setup *Setup, reqs [][]*Req, sr *sched.Result) []string {
	var out []string
	out = append(out, "SETUP")
	out = append(out, setup.Describe()...)
	for ti, l := range reqs {
		for _, q := range l {
			out = append(out, "task"+itoa(ti)+" "+q.Line()+" chain="+itoa(q.Chain))
			for _, d := range q.DescribeProgs() {
				out = append(out, "    "+d)
			}
			out = append(out, "    => "+itoa(q.W.Code)+"|"+string(q.W.Body)+"|"+q.Trace()+"|esc="+q.Escaped)
		}
	}
	if sr != nil {
		var sl strings.Builder
		for _, s := range sr.Log {
			sl.WriteString(itoa(int(s.Task)))
			sl.WriteByte(':')
			sl.WriteString(SiteName(int(s.Site)))
			sl.WriteByte(' ')
		}
		out = append(out, "SCHEDULE "+sl.String())
	}
	return out
}
