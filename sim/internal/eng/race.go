package eng

import (
	"sort"
	"strings"
)

// RaceClasses reduces every report of a race-detector log to the unordered
// pair of accessing functions (line numbers dropped), so that a report can be
// recognised again after shrinking or on replay.
func RaceClasses(rep string) []string {
	var out []string
	for _, blk := range strings.Split(rep, "WARNING: DATA RACE") {
		var tops []string
		lines := strings.Split(blk, "\n")
		for i, l := range lines {
			t := strings.TrimSpace(l)
			if (strings.HasPrefix(t, "Write at") || strings.HasPrefix(t, "Read at") || strings.HasPrefix(t, "Previous write at") ||
				strings.HasPrefix(t, "Previous read at")) && i+1 < len(lines) {
				f := strings.TrimSpace(lines[i+1])
				f = strings.TrimSuffix(f, "()")
				tops = append(tops, f)
				if len(tops) == 2 {
					break
				}
			}
		}
		if len(tops) == 2 {
			sort.Strings(tops)
			out = append(out, tops[0]+" <-> "+tops[1])
		}
	}
	return out
}

// RaceClass returns the class of the first report ("" if none).
func RaceClass(rep string) string {
	c := RaceClasses(rep)
	if len(c) == 0 {
		return ""
	}
	return c[0]
}
