package eng

import (
	"encoding/json"
	"os"
)

// KnownFinding is one entry of /verif/known_findings.json: a genuine defect of
// the code under test that is recorded rather than repaired ("open"), or one
// that was repaired ("fixed"; suppresses nothing).
type KnownFinding struct {
	Status   string            `json:"status"`
	Property string            `json:"property"`
	Rule     string            `json:"rule"`
	Shape    map[string]string `json:"shape"`
	What     string            `json:"what"`
	Commit   string            `json:"commit,omitempty"`
}

// LoadKnown reads the known-findings file (missing file: none).
func LoadKnown(path string) []KnownFinding {
	b, err := os.ReadFile(path)
	if err != nil {
		return nil
	}
	var f struct {
		Findings []KnownFinding `json:"findings"`
	}
	if json.Unmarshal(b, &f) != nil {
		return nil
	}
	return f.Findings
}

// MatchKnown returns the open finding that v is an instance of, if any: same
// property and rule, and every shape key of the finding present with the same
// value in the violation.
func MatchKnown(k []KnownFinding, v Violation) *KnownFinding {
	for i := range k {
		f := &k[i]
		if f.Status != "open" || f.Property != v.Property || f.Rule != v.Rule || len(f.Shape) == 0 {
			continue
		}
		ok := true
		for key, want := range f.Shape {
			if v.Shape[key] != want {
				ok = false
			}
		}
		if ok {
			return f
		}
	}
	return nil
}
