// Package eng defines what an engine (one simulated workload + oracle per
// property) hands back to the worker.
package eng

import (
	"sort"

	"verif/sim/internal/tape"
)

// Violation is one oracle failure.
type Violation struct {
	Property string            `json:"property"`
	Rule     string            `json:"rule"`
	Detail   string            `json:"detail"`
	Shape    map[string]string `json:"shape,omitempty"` // structural facts, matched against known findings
}

// Class is the violation class that must persist while shrinking.
func (v Violation) Class() string { return v.Property + "/" + v.Rule }

// Result describes one simulated run.
type Result struct {
	Violations  []Violation
	Sig         uint64   // signature of the case, for the distinct count
	Sigs        []uint64 // engines whose runs contain several cases list one signature per non-trivial case here instead
	Cases       int      // number of cases in this run (0: the run is one case)
	Nontrivial  bool
	Requests    int
	Steps       int
	Ticks       int64
	Switches    int
	SchedHash   uint64
	SwitchHash  uint64
	SwitchPairs map[[2]int16]int
	Faults      map[string]int
	Sites       map[int]int
	Probes      map[string]int
	Blocked     int
	Poisoned    bool     // a task is stuck outside the scheduler (hang or busy loop in the code under test): the process must not run anything else
	Trace       []string // human-readable account of the run (only when Opts.Trace)
	Sample      interface{}
}

// Opts are per-run options.
type Opts struct {
	Trace bool
}

// Engine is one property's simulated workload and oracle.
type Engine interface {
	Name() string
	Property() string
	// Streams lists the tape streams in the order the shrinker should attack them.
	Run(t *tape.Tape, o Opts) *Result
	// DistinctRule explains what makes a run count as distinct and non-trivial.
	DistinctRule() string
}

// NewResult returns a Result with its maps allocated.
func NewResult() *Result {
	return &Result{SwitchPairs: map[[2]int16]int{}, Faults: map[string]int{}, Sites: map[int]int{}, Probes: map[string]int{}}
}

// Hash64 is FNV-1a over s.
func Hash64(h uint64, s string) uint64 {
	if h == 0 {
		h = 14695981039346656037
	}
	for i := 0; i < len(s); i++ {
		h ^= uint64(s[i])
		h *= 1099511628211
	}
	return h
}

// HashU32 folds a slice of draws into h.
func HashU32(h uint64, v []uint32) uint64 {
	if h == 0 {
		h = 14695981039346656037
	}
	for _, x := range v {
		h ^= uint64(x) + 0x9e3779b97f4a7c15
		h *= 1099511628211
	}
	return h
}

// SortedKeys returns the keys of m in order.
func SortedKeys(m map[string]int) []string {
	k := make([]string, 0, len(m))
	for s := range m {
		k = append(k, s)
	}
	sort.Strings(k)
	return k
}
