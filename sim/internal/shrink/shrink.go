// Package shrink minimises a recorded tape while a predicate (the same
// violation class is reproduced) keeps holding.
package shrink

import (
	"sort"
	"time"

	"verif/sim/internal/tape"
)

// Rec is a recorded tape: stream name -> draws.
type Rec map[string][]uint32

// Test re-executes a candidate and reports whether the violation class
// persists; when it does it also returns the canonical record (the draws
// actually consumed) and the draw groups of that execution.
type Test func(r Rec) (ok bool, canon Rec, spans map[string][]tape.Span)

func clone(r Rec) Rec {
	o := Rec{}
	for k, v := range r {
		o[k] = append([]uint32(nil), v...)
	}
	return o
}

// Size is the shrinker's cost: number of draws, then their sum.
func Size(r Rec) (n int, sum uint64) {
	for _, v := range r {
		for _, x := range v {
			if x != 0 {
				n++
			}
			sum += uint64(x)
		}
	}
	return
}

// Shrink returns the smallest record found within the budget.
func Shrink(start Rec, spans map[string][]tape.Span, order []string, test Test, maxAttempts int, deadline time.Time) (Rec, int) {
	best := clone(start)
	attempts := 0
	try := func(c Rec) bool {
		if attempts >= maxAttempts || time.Now().After(deadline) {
			return false
		}
		attempts++
		ok, canon, sp := test(c)
		if !ok {
			return false
		}
		if canon != nil {
			best = clone(canon)
		} else {
			best = clone(c)
		}
		if sp != nil {
			spans = sp
		}
		return true
	}
	names := append([]string{}, order...)
	for k := range best {
		found := false
		for _, n := range names {
			if n == k {
				found = true
			}
		}
		if !found {
			names = append(names, k)
		}
	}
	for pass := 0; pass < 4; pass++ {
		before, beforeSum := Size(best)
		// 1. whole streams to nothing (no faults / no switches / default swarm)
		for _, n := range names {
			if len(best[n]) == 0 {
				continue
			}
			c := clone(best)
			c[n] = nil
			try(c)
		}
		// 2. truncate tails
		for _, n := range names {
			lo, hi := 0, len(best[n])
			for lo < hi {
				mid := (lo + hi) / 2
				c := clone(best)
				if mid >= len(c[n]) {
					break
				}
				c[n] = c[n][:mid]
				if try(c) {
					hi = len(best[n])
					if hi > mid {
						hi = mid
					}
				} else {
					lo = mid + 1
				}
				if attempts >= maxAttempts {
					break
				}
			}
		}
		// 3. delete groups, largest first
		for _, n := range names {
			for round := 0; round < 3; round++ {
				sp := append([]tape.Span(nil), spans[n]...)
				sort.Slice(sp, func(i, j int) bool { return sp[i].To-sp[i].From > sp[j].To-sp[j].From })
				progress := false
				for _, s := range sp {
					if s.To > len(best[n]) || s.From >= s.To {
						continue
					}
					c := clone(best)
					c[n] = append(append([]uint32(nil), c[n][:s.From]...), c[n][s.To:]...)
					if try(c) {
						progress = true
						break // spans were refreshed
					}
				}
				if !progress {
					break
				}
			}
		}
		// 4. zero blocks of draws
		for _, n := range names {
			for bs := 16; bs >= 1; bs /= 2 {
				for i := 0; i < len(best[n]); i += bs {
					allZero := true
					for j := i; j < i+bs && j < len(best[n]); j++ {
						if best[n][j] != 0 {
							allZero = false
						}
					}
					if allZero {
						continue
					}
					c := clone(best)
					for j := i; j < i+bs && j < len(c[n]); j++ {
						c[n][j] = 0
					}
					try(c)
				}
			}
		}
		// 5. lower single values
		for _, n := range names {
			for i := 0; i < len(best[n]); i++ {
				v := best[n][i]
				if v <= 1 {
					continue
				}
				c := clone(best)
				c[n][i] = v / 2
				if !try(c) {
					c = clone(best)
					if i < len(c[n]) {
						c[n][i] = v - 1
						try(c)
					}
				}
			}
		}
		after, afterSum := Size(best)
		if after == before && afterSum == beforeSum {
			break
		}
		if attempts >= maxAttempts || time.Now().After(deadline) {
			break
		}
	}
	return best, attempts
}
