// Command autoyield writes an instrumented copy of flamego's non-test sources in which a
// cooperative yield (simYield(n), the build-tag guarded hook that /repo already has) precedes
// every statement, and a go build -overlay file that substitutes the copy for the originals.
// Nothing in /repo is touched. With it the scheduler can pre-empt a request between any two
// statements of the framework, not only at the six hand-placed hook sites.
//
// Functions that take a lock or run under sync.Once are left alone: parking a task inside a
// critical section would only exercise the scheduler's blocked-outside path.
package main

import (
	"bytes"
	"encoding/json"
	"fmt"
	"go/ast"
	"go/format"
	"go/parser"
	"go/token"
	"os"
	"path/filepath"
	"strings"
)

var pkgs = []string{".", "internal/route", "inject"}

func usesLock(fn ast.Node) bool {
	found := false
	ast.Inspect(fn, func(n ast.Node) bool {
		if c, ok := n.(*ast.CallExpr); ok {
			if s, ok := c.Fun.(*ast.SelectorExpr); ok {
				switch s.Sel.Name {
				case "Lock", "RLock", "Do":
					found = true
				}
			}
		}
		return !found
	})
	return found
}

type instr struct {
	next     int
	mapNames map[string]bool // identifiers (fields, parameters, variables) that hold maps in this package
	skipped  int
}

// Known map types from other packages, by their unqualified name.
var mapTypeNames = map[string]bool{"Header": true, "Values": true, "Params": true, "MIMEHeader": true}

func isMapType(e ast.Expr) bool {
	switch t := e.(type) {
	case *ast.MapType:
		return true
	case *ast.Ident:
		return mapTypeNames[t.Name]
	case *ast.SelectorExpr:
		return mapTypeNames[t.Sel.Name]
	case *ast.StarExpr:
		return isMapType(t.X)
	}
	return false
}

// collectMaps records every name that is declared with a map type in the file: the order in
// which Go iterates over a map is random, so a yield inside such a loop would make the number
// of yields (and with it the whole schedule) differ from one execution of the same tape to the
// next. Loops over these names are left uninstrumented.
func (in *instr) collectMaps(f *ast.File) {
	ast.Inspect(f, func(n ast.Node) bool {
		switch x := n.(type) {
		case *ast.TypeSpec:
			if _, ok := x.Type.(*ast.MapType); ok {
				mapTypeNames[x.Name.Name] = true
			}
		case *ast.Field:
			if isMapType(x.Type) {
				for _, nm := range x.Names {
					in.mapNames[nm.Name] = true
				}
			}
		case *ast.ValueSpec:
			if x.Type != nil && isMapType(x.Type) {
				for _, nm := range x.Names {
					in.mapNames[nm.Name] = true
				}
			}
			for i, v := range x.Values {
				if i < len(x.Names) && isMapValue(v) {
					in.mapNames[x.Names[i].Name] = true
				}
			}
		case *ast.AssignStmt:
			for i, v := range x.Rhs {
				if i < len(x.Lhs) && isMapValue(v) {
					if id, ok := x.Lhs[i].(*ast.Ident); ok {
						in.mapNames[id.Name] = true
					}
				}
			}
		}
		return true
	})
}

func isMapValue(v ast.Expr) bool {
	switch x := v.(type) {
	case *ast.CompositeLit:
		return x.Type != nil && isMapType(x.Type)
	case *ast.CallExpr:
		if id, ok := x.Fun.(*ast.Ident); ok && id.Name == "make" && len(x.Args) > 0 {
			return isMapType(x.Args[0])
		}
		if id, ok := x.Fun.(*ast.Ident); ok && mapTypeNames[id.Name] { // conversion Params(x)
			return true
		}
	}
	return false
}

// rangesOverMap: conservative — anything that is not plainly a slice/array/string/channel name
// known not to be a map counts as a map (calls such as URL.Query(), too).
func (in *instr) rangesOverMap(e ast.Expr) bool {
	switch x := e.(type) {
	case *ast.Ident:
		return in.mapNames[x.Name]
	case *ast.SelectorExpr:
		return in.mapNames[x.Sel.Name]
	case *ast.CallExpr:
		return true
	case *ast.ParenExpr:
		return in.rangesOverMap(x.X)
	}
	return false
}

func (in *instr) call() ast.Stmt {
	in.next++
	return &ast.ExprStmt{X: &ast.CallExpr{Fun: ast.NewIdent("simYield"), Args: []ast.Expr{&ast.BasicLit{Kind: token.INT, Value: fmt.Sprint(100 + in.next%100)}}}}
}

func (in *instr) list(l []ast.Stmt) []ast.Stmt {
	var out []ast.Stmt
	for _, s := range l {
		in.stmt(s)
		out = append(out, in.call(), s)
	}
	return out
}

func (in *instr) block(b *ast.BlockStmt) {
	if b == nil {
		return
	}
	b.List = in.list(b.List)
}

func (in *instr) stmt(s ast.Stmt) {
	switch x := s.(type) {
	case *ast.BlockStmt:
		in.block(x)
	case *ast.IfStmt:
		in.block(x.Body)
		if x.Else != nil {
			in.stmt(x.Else)
		}
	case *ast.ForStmt:
		in.block(x.Body)
	case *ast.RangeStmt:
		if in.rangesOverMap(x.X) {
			in.skipped++
			return // no yields inside a loop whose iteration order the runtime randomises
		}
		in.block(x.Body)
	case *ast.SwitchStmt:
		for _, c := range x.Body.List {
			cc := c.(*ast.CaseClause)
			cc.Body = in.list(cc.Body)
		}
	case *ast.TypeSwitchStmt:
		for _, c := range x.Body.List {
			cc := c.(*ast.CaseClause)
			cc.Body = in.list(cc.Body)
		}
	case *ast.SelectStmt:
		for _, c := range x.Body.List {
			cc := c.(*ast.CommClause)
			cc.Body = in.list(cc.Body)
		}
	case *ast.LabeledStmt:
		in.stmt(x.Stmt)
	}
	// function literals inside the statement (handlers returned by Logger(), Recovery(), Static(), ...)
	ast.Inspect(s, func(n ast.Node) bool {
		if fl, ok := n.(*ast.FuncLit); ok {
			if !usesLock(fl) {
				in.block(fl.Body)
			}
			return false
		}
		if _, ok := n.(*ast.BlockStmt); ok && n != ast.Node(s) {
			return false // nested blocks were handled structurally above
		}
		return true
	})
}

func main() {
	if len(os.Args) != 3 {
		fmt.Fprintln(os.Stderr, "usage: autoyield <repo> <outdir>")
		os.Exit(2)
	}
	repo, out := os.Args[1], os.Args[2]
	overlay := map[string]string{}
	in := &instr{mapNames: map[string]bool{}}
	sites := 0
	for _, p := range pkgs { // first pass: names that hold maps, over all packages
		dir := filepath.Join(repo, p)
		ents, _ := os.ReadDir(dir)
		for _, e := range ents {
			n := e.Name()
			if e.IsDir() || !strings.HasSuffix(n, ".go") || strings.HasSuffix(n, "_test.go") {
				continue
			}
			if f, err := parser.ParseFile(token.NewFileSet(), filepath.Join(dir, n), nil, 0); err == nil {
				in.collectMaps(f)
			}
		}
	}
	for _, p := range pkgs {
		dir := filepath.Join(repo, p)
		ents, err := os.ReadDir(dir)
		if err != nil {
			fmt.Fprintln(os.Stderr, err)
			os.Exit(2)
		}
		for _, e := range ents {
			n := e.Name()
			if e.IsDir() || !strings.HasSuffix(n, ".go") || strings.HasSuffix(n, "_test.go") || strings.HasPrefix(n, "simhook_") {
				continue
			}
			src := filepath.Join(dir, n)
			fset := token.NewFileSet()
			f, err := parser.ParseFile(fset, src, nil, parser.ParseComments)
			if err != nil {
				fmt.Fprintln(os.Stderr, err)
				os.Exit(2)
			}
			before := in.next
			for _, d := range f.Decls {
				fd, ok := d.(*ast.FuncDecl)
				if !ok || fd.Body == nil || fd.Name.Name == "init" || fd.Name.Name == "simYield" {
					continue
				}
				if usesLock(fd) {
					// still instrument function literals that do not lock (e.g. the handler
					// closures returned by constructors) — only if the lock is outside them
					continue
				}
				in.block(fd.Body)
			}
			if in.next == before {
				continue
			}
			f.Comments = nil // positions are stale after insertion; doc comments are not needed to compile
			var buf bytes.Buffer
			if err := format.Node(&buf, fset, f); err != nil {
				fmt.Fprintln(os.Stderr, src, err)
				os.Exit(2)
			}
			dst := filepath.Join(out, p, n)
			os.MkdirAll(filepath.Dir(dst), 0o755)
			// build constraints live in comments: re-add any leading //go:build line
			head := ""
			if raw, err := os.ReadFile(src); err == nil {
				for _, l := range strings.Split(string(raw), "\n") {
					if strings.HasPrefix(l, "//go:build") {
						head = l + "\n\n"
					}
					if strings.HasPrefix(l, "package ") {
						break
					}
				}
			}
			os.WriteFile(dst, append([]byte(head), buf.Bytes()...), 0o644)
			overlay[src] = dst
			sites += in.next - before
		}
	}
	// package inject has no hook of its own: add one, and let SetSimYield install it.
	injHook := filepath.Join(out, "inject", "simhook_auto.go")
	os.MkdirAll(filepath.Dir(injHook), 0o755)
	os.WriteFile(injHook, []byte("package inject\n\n// SimYield is installed by flamego.SetSimYield in instrumented builds.\nvar SimYield func(site int)\n\nfunc simYield(site int) {\n\tif SimYield != nil {\n\t\tSimYield(site)\n\t}\n}\n"), 0o644)
	overlay[filepath.Join(repo, "inject", "simhook_auto.go")] = injHook
	rootHook := filepath.Join(out, "simhook_on.go")
	os.WriteFile(rootHook, []byte("//go:build verif\n\npackage flamego\n\nimport (\n\t\"github.com/flamego/flamego/inject\"\n\t\"github.com/flamego/flamego/internal/route\"\n)\n\nvar simYieldFn func(site int)\n\nfunc SetSimYield(f func(site int)) {\n\tsimYieldFn = f\n\troute.SimYield = f\n\tinject.SimYield = f\n}\n\nfunc simYield(site int) {\n\tif simYieldFn != nil {\n\t\tsimYieldFn(site)\n\t}\n}\n"), 0o644)
	overlay[filepath.Join(repo, "simhook_on.go")] = rootHook
	b, _ := json.MarshalIndent(map[string]any{"Replace": overlay}, "", " ")
	os.WriteFile(filepath.Join(out, "overlay.json"), b, 0o644)
	fmt.Printf("autoyield: %d yield sites in %d files (%d map-range loops left alone)\n", sites, len(overlay)-2, in.skipped)
}
