// Command autoyield writes an instrumented copy of flamego's non-test sources in which a
// cooperative yield (simYield(n), the build-tag guarded hook that /repo already has) precedes
// every statement, and a go build -overlay file that substitutes the copy for the originals.
// Nothing in /repo is touched. With it the scheduler can pre-empt a request between any two
// statements of the framework, not only at the six hand-placed hook sites.
//
// Functions that run something under sync.Once are left alone (see usesLock).
package main

import (
	"bytes"
	"encoding/json"
	"fmt"
	"go/ast"
	"go/build"
	"go/format"
	"go/importer"
	"go/parser"
	"go/token"
	"go/types"
	"os"
	"path/filepath"
	"strings"
)

var pkgs = []string{".", "internal/route", "inject"}

func usesLock(fn ast.Node) bool {
	found := false
	ast.Inspect(fn, func(n ast.Node) bool {
		if c, ok := n.(*ast.CallExpr); ok {
			if s, ok := c.Fun.(*ast.SelectorExpr); ok {
				// sync.Once.Do bodies stay atomic: every request touches the same few Once values
				// (lazily rendered route strings), and a task parked inside one would stall every
				// other task on its first step. Mutex-protected code is instrumented: a task parked
				// inside a critical section makes a contender block outside the scheduler, which the
				// scheduler survives (and which is how a lock-order or re-entrancy hang shows).
				if s.Sel.Name == "Do" {
					found = true
				}
			}
		}
		return !found
	})
	return found
}

type instr struct {
	next     int
	mapNames map[string]bool // identifiers (fields, parameters, variables) that hold maps in this package
	skipped  int
	sorted   int
	info     *types.Info // type information of the package being instrumented (nil: fall back to names)
	loopID   int
	wrapped  int // calls nested inside an expression that got a yield after them
	uses     map[*ast.Ident]types.Object
	clocked  int // references to package time's clock (Now, Since, Until, Sleep, After, AfterFunc) routed to the simulator
}

// Virtual clock. time.Now / Since / Until / Sleep / After / AfterFunc in flamego's sources become
// simTime.Now / ... (a package-level value of the instrumented copy whose methods ask the
// simulator when one is installed), so that any timer the framework arms reads simulated time
// and its callback runs as a task the scheduler places. time.NewTimer and Ticker are left on the
// wall clock (said in DESIGN.md).
var clockFuncs = map[string]bool{"Now": true, "Since": true, "Until": true, "Sleep": true, "After": true, "AfterFunc": true}

// Deadlines: context.WithTimeout / WithDeadline become simCtx.WithTimeout / WithDeadline, contexts
// whose deadline is a virtual timer (Done closes, Err reports DeadlineExceeded, when the simulated
// clock gets there).
var ctxFuncs = map[string]bool{"WithTimeout": true, "WithDeadline": true}

// routeClock returns, per routed package, the local import name and a member that keeps the import used.
func (in *instr) routeClock(f *ast.File) (keep [][2]string) {
	if in.uses == nil {
		return nil
	}
	seen := map[string]bool{}
	ast.Inspect(f, func(n ast.Node) bool {
		sel, ok := n.(*ast.SelectorExpr)
		if !ok {
			return true
		}
		id, ok := sel.X.(*ast.Ident)
		if !ok {
			return true
		}
		pn, ok := in.uses[id].(*types.PkgName)
		if !ok {
			return true
		}
		switch {
		case pn.Imported().Path() == "time" && clockFuncs[sel.Sel.Name]:
			if !seen[id.Name] {
				seen[id.Name] = true
				keep = append(keep, [2]string{id.Name, "Nanosecond"})
			}
			sel.X = ast.NewIdent("simTime")
			in.clocked++
		case pn.Imported().Path() == "context" && ctxFuncs[sel.Sel.Name]:
			if !seen[id.Name] {
				seen[id.Name] = true
				keep = append(keep, [2]string{id.Name, "Background"})
			}
			sel.X = ast.NewIdent("simCtx")
			in.clocked++
		}
		return true
	})
	return keep
}

// Known map types from other packages, by their unqualified name.
var mapTypeNames = map[string]bool{"Header": true, "Values": true, "Params": true, "MIMEHeader": true}

func isMapType(e ast.Expr) bool {
	switch t := e.(type) {
	case *ast.MapType:
		return true
	case *ast.Ident:
		return mapTypeNames[t.Name]
	case *ast.SelectorExpr:
		return mapTypeNames[t.Sel.Name]
	case *ast.StarExpr:
		return isMapType(t.X)
	}
	return false
}

// collectMaps records every name that is declared with a map type in the file: the order in
// which Go iterates over a map is random, so a yield inside such a loop would make the number
// of yields (and with it the whole schedule) differ from one execution of the same tape to the
// next. Loops over these names are left uninstrumented.
func (in *instr) collectMaps(f *ast.File) {
	ast.Inspect(f, func(n ast.Node) bool {
		switch x := n.(type) {
		case *ast.TypeSpec:
			if _, ok := x.Type.(*ast.MapType); ok {
				mapTypeNames[x.Name.Name] = true
			}
		case *ast.Field:
			if isMapType(x.Type) {
				for _, nm := range x.Names {
					in.mapNames[nm.Name] = true
				}
			}
		case *ast.ValueSpec:
			if x.Type != nil && isMapType(x.Type) {
				for _, nm := range x.Names {
					in.mapNames[nm.Name] = true
				}
			}
			for i, v := range x.Values {
				if i < len(x.Names) && isMapValue(v) {
					in.mapNames[x.Names[i].Name] = true
				}
			}
		case *ast.AssignStmt:
			for i, v := range x.Rhs {
				if i < len(x.Lhs) && isMapValue(v) {
					if id, ok := x.Lhs[i].(*ast.Ident); ok {
						in.mapNames[id.Name] = true
					}
				}
			}
		}
		return true
	})
}

func isMapValue(v ast.Expr) bool {
	switch x := v.(type) {
	case *ast.CompositeLit:
		return x.Type != nil && isMapType(x.Type)
	case *ast.CallExpr:
		if id, ok := x.Fun.(*ast.Ident); ok && id.Name == "make" && len(x.Args) > 0 {
			return isMapType(x.Args[0])
		}
		if id, ok := x.Fun.(*ast.Ident); ok && mapTypeNames[id.Name] { // conversion Params(x)
			return true
		}
	}
	return false
}

// rangesOverMap: conservative — anything that is not plainly a slice/array/string/channel name
// known not to be a map counts as a map (calls such as URL.Query(), too).
func (in *instr) rangesOverMap(e ast.Expr) bool {
	if in.info != nil {
		if t := in.info.TypeOf(e); t != nil {
			_, isMap := t.Underlying().(*types.Map)
			return isMap
		}
		return false // a node this tool synthesised (the sorted key slice)
	}
	switch x := e.(type) {
	case *ast.Ident:
		return in.mapNames[x.Name]
	case *ast.SelectorExpr:
		return in.mapNames[x.Sel.Name]
	case *ast.CallExpr:
		return true
	case *ast.ParenExpr:
		return in.rangesOverMap(x.X)
	}
	return false
}

func (in *instr) call() ast.Stmt {
	in.next++
	return &ast.ExprStmt{X: &ast.CallExpr{Fun: ast.NewIdent("simYield"), Args: []ast.Expr{&ast.BasicLit{Kind: token.INT, Value: fmt.Sprint(100 + in.next%100)}}}}
}

func (in *instr) list(l []ast.Stmt) []ast.Stmt {
	var out []ast.Stmt
	for _, s := range l {
		if r, ok := s.(*ast.RangeStmt); ok && in.info != nil && in.rangesOverMap(r.X) && (r.Key != nil || r.Value != nil) {
			s = in.sortedRange(r)
		}
		in.wrapStmt(s)
		in.stmt(s)
		out = append(out, in.call(), s)
	}
	return out
}

// sortedRange rewrites `for k, v := range m { body }` over a map into
//
//	{ simM := m; for _, simK := range simSortedKeys(simM) { k, v := simK, simM[simK]; body } }
//
// Go leaves the iteration order of maps unspecified (and randomises it), so any fixed order is
// a legal execution; fixing it makes the number and order of yields inside such loops a
// function of the tape again. A key deleted by the body before its turn is skipped, as the
// language guarantees for the original loop.
func (in *instr) sortedRange(r *ast.RangeStmt) ast.Stmt {
	in.loopID++
	in.sorted++
	mName := ast.NewIdent(fmt.Sprintf("simM%d", in.loopID))
	kName := ast.NewIdent(fmt.Sprintf("simK%d", in.loopID))
	okName := ast.NewIdent(fmt.Sprintf("simOk%d", in.loopID))
	vName := ast.NewIdent(fmt.Sprintf("simV%d", in.loopID))
	var pre []ast.Stmt
	// simV, simOk := simM[simK]; if !simOk { continue }
	pre = append(pre, &ast.AssignStmt{Lhs: []ast.Expr{vName, okName}, Tok: token.DEFINE, Rhs: []ast.Expr{&ast.IndexExpr{X: mName, Index: kName}}})
	pre = append(pre, &ast.IfStmt{Cond: &ast.UnaryExpr{Op: token.NOT, X: okName}, Body: &ast.BlockStmt{List: []ast.Stmt{&ast.BranchStmt{Tok: token.CONTINUE}}}})
	pre = append(pre, &ast.AssignStmt{Lhs: []ast.Expr{ast.NewIdent("_")}, Tok: token.ASSIGN, Rhs: []ast.Expr{vName}})
	isBlank := func(e ast.Expr) bool {
		id, ok := e.(*ast.Ident)
		return e == nil || (ok && id.Name == "_")
	}
	if !isBlank(r.Key) {
		pre = append(pre, &ast.AssignStmt{Lhs: []ast.Expr{r.Key}, Tok: r.Tok, Rhs: []ast.Expr{kName}})
	}
	if !isBlank(r.Value) {
		pre = append(pre, &ast.AssignStmt{Lhs: []ast.Expr{r.Value}, Tok: r.Tok, Rhs: []ast.Expr{vName}})
	}
	body := &ast.BlockStmt{List: append(pre, r.Body.List...)}
	loop := &ast.RangeStmt{Key: ast.NewIdent("_"), Value: kName, Tok: token.DEFINE,
		X: &ast.CallExpr{Fun: ast.NewIdent("simSortedKeys"), Args: []ast.Expr{mName}}, Body: body}
	return &ast.BlockStmt{List: []ast.Stmt{
		&ast.AssignStmt{Lhs: []ast.Expr{mName}, Tok: token.DEFINE, Rhs: []ast.Expr{r.X}},
		loop,
	}}
}

func (in *instr) block(b *ast.BlockStmt) {
	if b == nil {
		return
	}
	b.List = in.list(b.List)
}

func (in *instr) stmt(s ast.Stmt) {
	switch x := s.(type) {
	case *ast.BlockStmt:
		in.block(x)
	case *ast.IfStmt:
		in.block(x.Body)
		if x.Else != nil {
			in.stmt(x.Else)
		}
	case *ast.ForStmt:
		in.block(x.Body)
	case *ast.RangeStmt:
		if in.rangesOverMap(x.X) && (x.Key != nil || x.Value != nil) {
			in.skipped++
			return // (only without type information) no yields inside a loop whose order the runtime randomises
		}
		in.block(x.Body)
	case *ast.SwitchStmt:
		for _, c := range x.Body.List {
			cc := c.(*ast.CaseClause)
			cc.Body = in.list(cc.Body)
		}
	case *ast.TypeSwitchStmt:
		for _, c := range x.Body.List {
			cc := c.(*ast.CaseClause)
			cc.Body = in.list(cc.Body)
		}
	case *ast.SelectStmt:
		for _, c := range x.Body.List {
			cc := c.(*ast.CommClause)
			cc.Body = in.list(cc.Body)
		}
	case *ast.LabeledStmt:
		in.stmt(x.Stmt)
	}
	// function literals inside the statement (handlers returned by Logger(), Recovery(), Static(), ...)
	ast.Inspect(s, func(n ast.Node) bool {
		if fl, ok := n.(*ast.FuncLit); ok {
			if !usesLock(fl) {
				in.block(fl.Body)
			}
			return false
		}
		if _, ok := n.(*ast.BlockStmt); ok && n != ast.Node(s) {
			return false // nested blocks were handled structurally above
		}
		return true
	})
}

// Expression-level yields. A statement such as
//
//	if head.CompareAndSwap(old, old.next.Load()) { ... }
//
// reads and publishes in one go as far as statement-level yields are concerned; the window
// between the two calls is real all the same. Every call that is nested inside another
// expression (an argument, an operand, a receiver) is wrapped as simY(call): the call is
// evaluated, then the task may be pre-empted, then the enclosing operation goes on. Needs type
// information (conversions, builtins, constant and multi-valued calls are left alone).
func (in *instr) wrappable(c *ast.CallExpr) bool {
	if in.info == nil {
		return false
	}
	if id, ok := c.Fun.(*ast.Ident); ok && (id.Name == "simY" || id.Name == "simYield" || id.Name == "simSortedKeys") {
		return false
	}
	ftv, ok := in.info.Types[c.Fun]
	if !ok || ftv.IsType() || ftv.IsBuiltin() {
		return false
	}
	tv, ok := in.info.Types[c]
	if !ok || tv.Type == nil || tv.IsVoid() || tv.Value != nil {
		return false
	}
	if _, tuple := tv.Type.(*types.Tuple); tuple {
		return false
	}
	if b, ok := tv.Type.(*types.Basic); ok && b.Info()&types.IsUntyped != 0 {
		return false
	}
	return true
}

func (in *instr) isTypeExpr(e ast.Expr) bool {
	if in.info == nil {
		return true
	}
	tv, ok := in.info.Types[e]
	return ok && tv.IsType()
}

// expr rewrites the calls nested in e; nested says whether e itself sits inside another expression.
func (in *instr) expr(e ast.Expr, nested bool) ast.Expr {
	switch x := e.(type) {
	case nil:
		return nil
	case *ast.CallExpr:
		if !in.isTypeExpr(x.Fun) {
			x.Fun = in.expr(x.Fun, true)
		}
		for i, a := range x.Args {
			if !in.isTypeExpr(a) {
				x.Args[i] = in.expr(a, true)
			}
		}
		if nested && in.wrappable(x) {
			in.wrapped++
			return &ast.CallExpr{Fun: ast.NewIdent("simY"), Args: []ast.Expr{x}}
		}
	case *ast.BinaryExpr:
		x.X, x.Y = in.expr(x.X, true), in.expr(x.Y, true)
	case *ast.UnaryExpr:
		if x.Op != token.AND {
			x.X = in.expr(x.X, true)
		}
	case *ast.ParenExpr:
		x.X = in.expr(x.X, nested)
	case *ast.SelectorExpr:
		if !in.isTypeExpr(x.X) {
			x.X = in.expr(x.X, true)
		}
	case *ast.IndexExpr:
		if !in.isTypeExpr(x) && !in.isTypeExpr(x.Index) {
			x.X, x.Index = in.expr(x.X, true), in.expr(x.Index, true)
		}
	case *ast.SliceExpr:
		x.X, x.Low, x.High, x.Max = in.expr(x.X, true), in.expr(x.Low, true), in.expr(x.High, true), in.expr(x.Max, true)
	case *ast.StarExpr:
		if !in.isTypeExpr(x) {
			x.X = in.expr(x.X, true)
		}
	case *ast.TypeAssertExpr:
		x.X = in.expr(x.X, true)
	case *ast.KeyValueExpr:
		x.Value = in.expr(x.Value, true)
	case *ast.CompositeLit:
		for i, el := range x.Elts {
			x.Elts[i] = in.expr(el, true)
		}
	}
	return e
}

func (in *instr) exprs(l []ast.Expr) {
	for i, e := range l {
		l[i] = in.expr(e, false)
	}
}

// wrapStmt applies expr to the expressions a statement evaluates itself (not to the statements
// nested in it, which get their turn when their own block is instrumented).
func (in *instr) wrapStmt(s ast.Stmt) {
	if in.info == nil || s == nil {
		return
	}
	switch x := s.(type) {
	case *ast.ExprStmt:
		x.X = in.expr(x.X, false)
	case *ast.AssignStmt:
		in.exprs(x.Rhs)
		for i, l := range x.Lhs {
			if _, isIdent := l.(*ast.Ident); !isIdent {
				x.Lhs[i] = in.expr(l, false)
			}
		}
	case *ast.ReturnStmt:
		in.exprs(x.Results)
	case *ast.IfStmt:
		in.wrapStmt(x.Init)
		x.Cond = in.expr(x.Cond, false)
	case *ast.ForStmt:
		in.wrapStmt(x.Init)
		x.Cond = in.expr(x.Cond, false)
		in.wrapStmt(x.Post)
	case *ast.RangeStmt:
		x.X = in.expr(x.X, false)
	case *ast.SwitchStmt:
		in.wrapStmt(x.Init)
		x.Tag = in.expr(x.Tag, false)
	case *ast.TypeSwitchStmt:
		in.wrapStmt(x.Init)
	case *ast.SendStmt:
		x.Chan, x.Value = in.expr(x.Chan, false), in.expr(x.Value, false)
	case *ast.IncDecStmt:
		x.X = in.expr(x.X, false)
	case *ast.GoStmt:
		in.expr(x.Call, false)
	case *ast.DeferStmt:
		in.expr(x.Call, false)
	case *ast.LabeledStmt:
		in.wrapStmt(x.Stmt)
	}
}

const simTimeSrc = `

import (
	simstdctx "context"
	"sync"
	"time"
)

// SimClockFuncs is the virtual clock of the simulator (instrumented builds only).
type SimClockFuncs struct {
	Now       func() time.Time
	Sleep     func(time.Duration)
	After     func(time.Duration) <-chan time.Time
	AfterFunc func(time.Duration, func()) *time.Timer
}

// SimClock is installed by flamego.SetSimClock.
var SimClock SimClockFuncs

type simTimeT struct{}

var simTime simTimeT

func (simTimeT) Now() time.Time {
	if SimClock.Now != nil {
		return SimClock.Now()
	}
	return time.Now()
}
func (s simTimeT) Since(t time.Time) time.Duration { return s.Now().Sub(t) }
func (s simTimeT) Until(t time.Time) time.Duration { return t.Sub(s.Now()) }
func (simTimeT) Sleep(d time.Duration) {
	if SimClock.Sleep != nil {
		SimClock.Sleep(d)
		return
	}
	time.Sleep(d)
}
func (simTimeT) After(d time.Duration) <-chan time.Time {
	if SimClock.After != nil {
		return SimClock.After(d)
	}
	return time.After(d)
}
func (simTimeT) AfterFunc(d time.Duration, f func()) *time.Timer {
	if SimClock.AfterFunc != nil {
		return SimClock.AfterFunc(d, f)
	}
	return time.AfterFunc(d, f)
}

type simCtxT struct{}

var simCtx simCtxT

func (simCtxT) WithTimeout(parent simstdctx.Context, d time.Duration) (simstdctx.Context, simstdctx.CancelFunc) {
	if SimClock.AfterFunc == nil {
		return simstdctx.WithTimeout(parent, d)
	}
	return simDeadlineCtx(parent, simTime.Now().Add(d), d)
}

func (simCtxT) WithDeadline(parent simstdctx.Context, t time.Time) (simstdctx.Context, simstdctx.CancelFunc) {
	if SimClock.AfterFunc == nil {
		return simstdctx.WithDeadline(parent, t)
	}
	return simDeadlineCtx(parent, t, t.Sub(simTime.Now()))
}

// simTimerCtx is a context whose deadline is a timer of the virtual clock.
type simTimerCtx struct {
	simstdctx.Context
	deadline time.Time
	mu       sync.Mutex
	err      error
}

func (c *simTimerCtx) Deadline() (time.Time, bool) { return c.deadline, true }

func (c *simTimerCtx) Err() error {
	c.mu.Lock()
	defer c.mu.Unlock()
	if c.err != nil {
		return c.err
	}
	return c.Context.Err()
}

func (c *simTimerCtx) expire() {
	c.mu.Lock()
	if c.err == nil && c.Context.Err() == nil {
		c.err = simstdctx.DeadlineExceeded
	}
	c.mu.Unlock()
}

func simDeadlineCtx(parent simstdctx.Context, deadline time.Time, d time.Duration) (simstdctx.Context, simstdctx.CancelFunc) {
	inner, cancelInner := simstdctx.WithCancel(parent)
	c := &simTimerCtx{Context: inner, deadline: deadline}
	if d <= 0 {
		c.expire()
		cancelInner()
		return c, func() {}
	}
	t := SimClock.AfterFunc(d, func() { c.expire(); cancelInner() })
	return c, func() { t.Stop(); cancelInner() }
}
` + "\n"

func main() {
	if len(os.Args) != 3 {
		fmt.Fprintln(os.Stderr, "usage: autoyield <repo> <outdir>")
		os.Exit(2)
	}
	repo, out := os.Args[1], os.Args[2]
	overlay := map[string]string{}
	in := &instr{mapNames: map[string]bool{}}
	sites := 0
	for _, p := range pkgs { // first pass: names that hold maps, over all packages
		dir := filepath.Join(repo, p)
		ents, _ := os.ReadDir(dir)
		for _, e := range ents {
			n := e.Name()
			if e.IsDir() || !strings.HasSuffix(n, ".go") || strings.HasSuffix(n, "_test.go") {
				continue
			}
			if f, err := parser.ParseFile(token.NewFileSet(), filepath.Join(dir, n), nil, 0); err == nil {
				in.collectMaps(f)
			}
		}
	}
	os.Chdir(repo)
	build.Default.Dir = repo
	build.Default.BuildTags = []string{"verif"}
	for _, p := range pkgs {
		dir := filepath.Join(repo, p)
		ents, err := os.ReadDir(dir)
		if err != nil {
			fmt.Fprintln(os.Stderr, err)
			os.Exit(2)
		}
		fset := token.NewFileSet()
		var files []*ast.File
		var names []string
		for _, e := range ents {
			n := e.Name()
			if e.IsDir() || !strings.HasSuffix(n, ".go") || strings.HasSuffix(n, "_test.go") || n == "simhook_off.go" {
				continue
			}
			f, err := parser.ParseFile(fset, filepath.Join(dir, n), nil, parser.ParseComments)
			if err != nil {
				fmt.Fprintln(os.Stderr, err)
				os.Exit(2)
			}
			files = append(files, f)
			names = append(names, n)
		}
		// Type information tells map ranges from slice ranges exactly. A package that does not
		// type-check (it would not compile either) falls back to the name heuristic.
		info := &types.Info{Types: map[ast.Expr]types.TypeAndValue{}, Uses: map[*ast.Ident]types.Object{}}
		conf := types.Config{Importer: importer.ForCompiler(fset, "source", nil), Error: func(error) {}}
		if _, err := conf.Check("autoyield/"+p, fset, files, info); err == nil {
			in.info = info
			in.uses = info.Uses
		} else {
			in.info = nil
			in.uses = nil
			fmt.Fprintf(os.Stderr, "autoyield: %s does not type-check (%v): map ranges are left alone by name\n", p, err)
		}
		sortedBefore := in.sorted
		wrappedBefore := in.wrapped
		for fi, f := range files {
			n := names[fi]
			if strings.HasPrefix(n, "simhook_") {
				continue
			}
			src := filepath.Join(dir, n)
			before := in.next
			clockedBefore := in.clocked
			for _, kp := range in.routeClock(f) {
				// keep the import used whatever else the file does with it
				f.Decls = append(f.Decls, &ast.GenDecl{Tok: token.VAR, Specs: []ast.Spec{&ast.ValueSpec{Names: []*ast.Ident{ast.NewIdent("_")},
					Values: []ast.Expr{&ast.SelectorExpr{X: ast.NewIdent(kp[0]), Sel: ast.NewIdent(kp[1])}}}}})
			}
			for _, d := range f.Decls {
				fd, ok := d.(*ast.FuncDecl)
				if !ok || fd.Body == nil || fd.Name.Name == "init" || fd.Name.Name == "simYield" {
					continue
				}
				if usesLock(fd) {
					continue
				}
				in.block(fd.Body)
			}
			if in.next == before && in.clocked == clockedBefore {
				continue
			}
			f.Comments = nil // positions are stale after insertion; doc comments are not needed to compile
			var buf bytes.Buffer
			if err := format.Node(&buf, fset, f); err != nil {
				fmt.Fprintln(os.Stderr, src, err)
				os.Exit(2)
			}
			dst := filepath.Join(out, p, n)
			os.MkdirAll(filepath.Dir(dst), 0o755)
			head := ""
			if raw, err := os.ReadFile(src); err == nil {
				for _, l := range strings.Split(string(raw), "\n") {
					if strings.HasPrefix(l, "//go:build") {
						head = l + "\n\n"
					}
					if strings.HasPrefix(l, "package ") {
						break
					}
				}
			}
			os.WriteFile(dst, append([]byte(head), buf.Bytes()...), 0o644)
			overlay[src] = dst
			sites += in.next - before
		}
		{
			pkgName := files[0].Name.Name
			helper := filepath.Join(out, p, "simtime_auto.go")
			os.MkdirAll(filepath.Dir(helper), 0o755)
			os.WriteFile(helper, []byte("package "+pkgName+simTimeSrc), 0o644)
			overlay[filepath.Join(dir, "simtime_auto.go")] = helper
		}
		if in.wrapped > wrappedBefore {
			pkgName := files[0].Name.Name
			helper := filepath.Join(out, p, "simexpr_auto.go")
			os.MkdirAll(filepath.Dir(helper), 0o755)
			os.WriteFile(helper, []byte("package "+pkgName+"\n\n// simY yields after the evaluation of a nested call (instrumented builds only).\nfunc simY[T any](v T) T {\n\tsimYield(99)\n\treturn v\n}\n"), 0o644)
			overlay[filepath.Join(dir, "simexpr_auto.go")] = helper
		}
		if in.sorted > sortedBefore {
			pkgName := files[0].Name.Name
			helper := filepath.Join(out, p, "simsort_auto.go")
			os.MkdirAll(filepath.Dir(helper), 0o755)
			os.WriteFile(helper, []byte("package "+pkgName+"\n\nimport (\n\t\"fmt\"\n\t\"sort\"\n)\n\n// simSortedKeys returns the keys of m in a fixed order (instrumented builds only).\nfunc simSortedKeys[M ~map[K]V, K comparable, V any](m M) []K {\n\tkeys := make([]K, 0, len(m))\n\tfor k := range m {\n\t\tkeys = append(keys, k)\n\t}\n\tsort.Slice(keys, func(i, j int) bool { return fmt.Sprint(keys[i]) < fmt.Sprint(keys[j]) })\n\treturn keys\n}\n"), 0o644)
			overlay[filepath.Join(dir, "simsort_auto.go")] = helper
		}
	}
	// package inject has no hook of its own: add one, and let SetSimYield install it.
	injHook := filepath.Join(out, "inject", "simhook_auto.go")
	os.MkdirAll(filepath.Dir(injHook), 0o755)
	os.WriteFile(injHook, []byte("package inject\n\n// SimYield is installed by flamego.SetSimYield in instrumented builds.\nvar SimYield func(site int)\n\nfunc simYield(site int) {\n\tif SimYield != nil {\n\t\tSimYield(site)\n\t}\n}\n"), 0o644)
	overlay[filepath.Join(repo, "inject", "simhook_auto.go")] = injHook
	rootHook := filepath.Join(out, "simhook_on.go")
	os.WriteFile(rootHook, []byte("//go:build verif\n\npackage flamego\n\nimport (\n\t\"github.com/flamego/flamego/inject\"\n\t\"github.com/flamego/flamego/internal/route\"\n)\n\nvar simYieldFn func(site int)\n\nfunc SetSimYield(f func(site int)) {\n\tsimYieldFn = f\n\troute.SimYield = f\n\tinject.SimYield = f\n}\n\nfunc simYield(site int) {\n\tif simYieldFn != nil {\n\t\tsimYieldFn(site)\n\t}\n}\n\n// SetSimClock installs the simulator's virtual clock in every instrumented package.\nfunc SetSimClock(c SimClockFuncs) {\n\tSimClock = c\n\troute.SimClock = route.SimClockFuncs(c)\n\tinject.SimClock = inject.SimClockFuncs(c)\n}\n"), 0o644)
	overlay[filepath.Join(repo, "simhook_on.go")] = rootHook
	if in.sorted > 0 {
		// simSortedKeys is generic over comparable keys, and interface-typed keys (reflect.Type in
		// package inject) satisfy comparable only from Go 1.20 on: the instrumented copy of the
		// module declares that language version (the copy only; /repo's go.mod is untouched).
		if raw, err := os.ReadFile(filepath.Join(repo, "go.mod")); err == nil {
			lines := strings.Split(string(raw), "\n")
			for i, l := range lines {
				if strings.HasPrefix(l, "go 1.") {
					lines[i] = "go 1.20"
				}
			}
			gm := filepath.Join(out, "go.mod")
			os.WriteFile(gm, []byte(strings.Join(lines, "\n")), 0o644)
			overlay[filepath.Join(repo, "go.mod")] = gm
		}
	}
	b, _ := json.MarshalIndent(map[string]any{"Replace": overlay}, "", " ")
	os.WriteFile(filepath.Join(out, "overlay.json"), b, 0o644)
	fmt.Printf("autoyield: %d statement yield sites and %d expression yields (after nested calls) in %d files (%d map-range loops iterate in sorted order, %d left alone); %d clock references routed to the virtual clock\n", sites, in.wrapped, len(overlay)-2, in.sorted, in.skipped, in.clocked)
}
