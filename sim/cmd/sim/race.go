package main

import (
	"encoding/json"
	"flag"
	"fmt"
	"os"
	"os/exec"
	"path/filepath"
	"strconv"
	"time"

	"verif/sim/internal/eng"
	"verif/sim/internal/sched"
	"verif/sim/internal/shrink"
	"verif/sim/internal/tape"
	"verif/sim/internal/world"
)

// tapeCmd records the tape and trace of one run (used for runs whose verdict
// came from the race detector, which killed the process that executed them).
func tapeCmd(args []string) {
	fs := flag.NewFlagSet("tape", flag.ExitOnError)
	en := fs.String("engine", "conc", "")
	seed := fs.Uint64("seed", 1, "")
	idx := fs.Uint64("index", 0, "")
	prop := fs.String("property", "", "")
	rule := fs.String("rule", "data-race", "")
	detail := fs.String("detail", "", "")
	report := fs.String("report", "", "")
	out := fs.String("out", "", "")
	fs.Parse(args)
	e := getEngine(*en)
	rs := tape.RunSeed(*seed, *idx)
	t := tape.New(rs)
	res := e.Run(t, eng.Opts{Trace: true})
	orig := map[string]int{}
	for k, l := range t.Record() {
		orig[k] = len(l)
	}
	rf := ReplayFile{Property: *prop, Engine: e.Name(), Rule: *rule, MasterSeed: *seed, RunIndex: *idx, RunSeed: rs,
		Build: map[string]any{"tags": "verif", "race": true, "autoyield": world.AutoMode}, Tape: t.Record(), SchedHash: strconv.FormatUint(res.SchedHash, 16),
		Violation: eng.Violation{Property: *prop, Rule: *rule, Detail: *detail, Shape: map[string]string{"pair": *detail}}, Trace: res.Trace, Original: orig,
		Note: "verdict from the Go race detector (scheduler hand-off hidden from it). Replay re-executes this tape in fresh processes of the -race build; " +
			"sync.Pool inside reflect/regexp/fmt can add accidental happens-before edges, so up to 10 attempts are made.\n" + *report}
	b, _ := json.MarshalIndent(rf, "", " ")
	if err := os.WriteFile(*out, b, 0o644); err != nil {
		fmt.Fprintln(os.Stderr, err)
		os.Exit(2)
	}
}

type canonOut struct {
	Tape  map[string][]uint32    `json:"tape"`
	Spans map[string][]tape.Span `json:"spans"`
	Sched string                 `json:"sched"`
}

// runtape executes a replay file's tape once in this process (the caller set
// GORACE) and writes the canonical record.
func runtape(args []string) {
	fs := flag.NewFlagSet("runtape", flag.ExitOnError)
	file := fs.String("file", "", "")
	canon := fs.String("canon", "", "")
	fs.Parse(args)
	b, err := os.ReadFile(*file)
	if err != nil {
		os.Exit(2)
	}
	var rf ReplayFile
	if json.Unmarshal(b, &rf) != nil {
		os.Exit(2)
	}
	e := getEngine(rf.Engine)
	t := tape.Replay(rf.RunSeed, rf.Tape)
	res := e.Run(t, eng.Opts{})
	if *canon != "" {
		cb, _ := json.Marshal(canonOut{Tape: t.Record(), Spans: t.Spans(), Sched: strconv.FormatUint(res.SchedHash, 16)})
		os.WriteFile(*canon, cb, 0o644)
	}
}

// raceOnce runs the tape of rf in a fresh child process under the race
// detector; it returns the report class ("" if none) and the canonical record.
func raceOnce(rf *ReplayFile, dir string, n int) (string, string, *canonOut) {
	self, _ := os.Executable()
	f := filepath.Join(dir, "cand-"+strconv.Itoa(n)+".json")
	b, _ := json.Marshal(rf)
	os.WriteFile(f, b, 0o644)
	canon := f + ".canon"
	logp := f + ".racelog"
	cmd := exec.Command(self, "runtape", "-file", f, "-canon", canon)
	cmd.Env = append(os.Environ(), "GORACE=halt_on_error=0 exitcode=66 log_path="+logp, "GOMAXPROCS=2")
	err := cmd.Run()
	defer func() {
		os.Remove(f)
		os.Remove(canon)
		m, _ := filepath.Glob(logp + ".*")
		for _, x := range m {
			os.Remove(x)
		}
	}()
	code := 0
	if ee, ok := err.(*exec.ExitError); ok {
		code = ee.ExitCode()
	}
	if code != 66 {
		return "", "", nil
	}
	rep := ""
	m, _ := filepath.Glob(logp + ".*")
	for _, x := range m {
		rb, _ := os.ReadFile(x)
		rep += string(rb)
	}
	var co canonOut
	if cb, err := os.ReadFile(canon); err == nil {
		json.Unmarshal(cb, &co)
	}
	// a report may contain several races; match any
	return rep, eng.RaceClass(rep), &co
}

func classesOf(rep string) map[string]bool {
	out := map[string]bool{}
	for _, c := range eng.RaceClasses(rep) {
		out[c] = true
	}
	return out
}

func shrinkRace(args []string) {
	fs := flag.NewFlagSet("shrinkrace", flag.ExitOnError)
	file := fs.String("file", "", "")
	budget := fs.Duration("budget", 90*time.Second, "")
	fs.Parse(args)
	if !sched.RaceOn {
		fmt.Println("not a race build")
		os.Exit(2)
	}
	b, err := os.ReadFile(*file)
	if err != nil {
		os.Exit(2)
	}
	var rf ReplayFile
	json.Unmarshal(b, &rf)
	want := rf.Violation.Detail
	dir, _ := os.MkdirTemp(filepath.Dir(*file), ".shrink-")
	defer os.RemoveAll(dir)
	n := 0
	test := func(c shrink.Rec) (bool, shrink.Rec, map[string][]tape.Span) {
		n++
		cand := rf
		cand.Tape = c
		rep, _, co := raceOnce(&cand, dir, n)
		if rep == "" || !classesOf(rep)[want] {
			return false, nil, nil
		}
		if co != nil && co.Tape != nil {
			return true, shrink.Rec(co.Tape), co.Spans
		}
		return true, nil, nil
	}
	// first make sure it reproduces at all
	ok := false
	for i := 0; i < 5 && !ok; i++ {
		ok, _, _ = test(shrink.Rec(rf.Tape))
	}
	if !ok {
		fmt.Println("race did not reproduce from its tape in 5 fresh processes; file left unshrunk")
		return
	}
	best, attempts := shrink.Shrink(shrink.Rec(rf.Tape), nil, shrinkOrder, test, 150, time.Now().Add(*budget))
	rf.Tape = best
	rf.Attempts = attempts
	// refresh the trace from the minimised tape
	e := getEngine(rf.Engine)
	t := tape.Replay(rf.RunSeed, best)
	res := e.Run(t, eng.Opts{Trace: true})
	rf.Trace = res.Trace
	rf.SchedHash = strconv.FormatUint(res.SchedHash, 16)
	rf.Tape = t.Record()
	ob, _ := json.MarshalIndent(rf, "", " ")
	os.WriteFile(*file, ob, 0o644)
	draws := 0
	for _, l := range rf.Tape {
		draws += len(l)
	}
	fmt.Printf("minimised to %d draws in %d attempts\n", draws, attempts)
}

// replayRace re-executes a race replay file in up to 10 fresh processes.
func replayRace(rf *ReplayFile, file string, quiet bool) {
	dir, _ := os.MkdirTemp("", "simreplay-")
	defer os.RemoveAll(dir)
	want := rf.Violation.Detail
	for i := 0; i < 10; i++ {
		rep, _, co := raceOnce(rf, dir, i)
		if rep == "" {
			continue
		}
		if classesOf(rep)[want] || want == "" {
			if !quiet {
				for _, l := range rf.Trace {
					fmt.Println(l)
				}
				fmt.Println(rep)
			}
			same := co != nil && co.Sched == rf.SchedHash
			fmt.Printf("replay: attempt %d reproduced the race %s (schedule identical=%v)\n", i+1, want, same)
			fmt.Printf("VIOLATION property=%s replay=%s\n", rf.Property, file)
			os.RemoveAll(dir)
			os.Exit(1)
		}
	}
	fmt.Printf("replay: race %q not reproduced in 10 fresh processes on this tree\n", want)
}
