// Command sim is the simulation worker: it executes simulated runs of one
// engine from seeds, shrinks and records violations, and replays replay files.
package main

import (
	"encoding/binary"
	"encoding/json"
	"flag"
	"fmt"
	"os"
	"path/filepath"
	"runtime"
	"runtime/pprof"
	"sort"
	"strconv"
	"time"

	"verif/sim/internal/eng"
	"verif/sim/internal/engines/chain"
	"verif/sim/internal/engines/conc"
	"verif/sim/internal/engines/recovery"
	"verif/sim/internal/engines/rw"
	"verif/sim/internal/engines/static"
	"verif/sim/internal/sched"
	"verif/sim/internal/shrink"
	"verif/sim/internal/tape"
	"verif/sim/internal/world"

	"github.com/flamego/flamego"
)

var engines = map[string]eng.Engine{
	"conc":     conc.Engine{},
	"chain":    chain.Engine{},
	"rw":       rw.Engine{},
	"recovery": recovery.Engine{},
	"static":   static.Engine{},
}

// ReplayFile is the on-disk form of one (minimised) failing run.
type ReplayFile struct {
	Property   string              `json:"property"`
	Engine     string              `json:"engine"`
	Rule       string              `json:"rule"`
	MasterSeed uint64              `json:"master_seed"`
	RunIndex   uint64              `json:"run_index"`
	RunSeed    uint64              `json:"run_seed"`
	Build      map[string]any      `json:"build"`
	Tape       map[string][]uint32 `json:"tape"`
	SchedHash  string              `json:"schedule_hash"`
	Violation  eng.Violation       `json:"violation"`
	Trace      []string            `json:"trace"`
	Original   map[string]int      `json:"minimised_from"`
	Attempts   int                 `json:"shrink_attempts"`
	Note       string              `json:"note,omitempty"`
	// Warmup: runs the worker had executed in the same process before this one. Engines whose
	// system under test lives across runs (the rw engine drives one Flame instance for the whole
	// process) replay them first, so that whatever the framework carried over is there again.
	Warmup *Warmup `json:"warmup,omitempty"`
}

// Warmup names the runs that preceded a recorded run in its worker process.
type Warmup struct {
	From   uint64 `json:"from"`
	Stride uint64 `json:"stride"`
	Count  int    `json:"count"`
	// OnlyIfNeeded: the engine builds a fresh instance per run, so a violation normally replays
	// alone. If it does not, the code under test keeps state between instances (package-level
	// variables: a free list, a cache) and the replay re-executes the preceding runs first.
	OnlyIfNeeded bool `json:"only_if_needed,omitempty"`
	// Unminimised: the tape as first recorded, tried after the warm-up when the minimised one
	// does not reproduce (minimisation ran in a process whose kept state had moved on).
	Unminimised map[string][]uint32 `json:"unminimised_tape,omitempty"`
}

// crossRunner is implemented by engines whose system under test outlives a run.
type crossRunner interface{ CrossRunState() bool }

// Summary is what a batch hands to the controller.
type Summary struct {
	Engine       string         `json:"engine"`
	Race         bool           `json:"race"`
	Evaluations  int            `json:"evaluations"`
	Runs         int            `json:"runs"`
	Nontrivial   int            `json:"nontrivial"`
	Requests     int            `json:"requests"`
	Steps        int            `json:"steps"`
	Ticks        int64          `json:"ticks"`
	Switches     int            `json:"switches"`
	Blocked      int            `json:"blocked_handovers"`
	Faults       map[string]int `json:"faults"`
	Sites        map[string]int `json:"sites"`
	Probes       map[string]int `json:"probes"`
	SwitchPairs  map[string]int `json:"switch_pairs"`
	Violations   []VioRef       `json:"violations"`
	Known        map[string]int `json:"known"`
	Samples      []any          `json:"samples"`
	WallS        float64        `json:"wall_s"`
	FirstIndex   uint64         `json:"first_index"`
	LastIndex    uint64         `json:"last_index"`
	DistinctRule string         `json:"distinct_rule"`
}

// VioRef points at a replay file.
type VioRef struct {
	Class  string        `json:"class"`
	Replay string        `json:"replay"`
	V      eng.Violation `json:"violation"`
}

var heapDump = func() {}

func main() {
	if len(os.Args) < 2 {
		fmt.Fprintln(os.Stderr, "usage: sim batch|replay|one ...")
		os.Exit(2)
	}
	flamego.SetSimYield(sched.Yield)
	if pf := os.Getenv("SIM_CPUPROFILE"); pf != "" {
		f, _ := os.Create(pf)
		pprof.StartCPUProfile(f)
		defer pprof.StopCPUProfile()
	}
	if pf := os.Getenv("SIM_HEAPPROFILE"); pf != "" {
		heapDump = func() {
			f, _ := os.Create(pf)
			runtime.GC()
			pprof.Lookup("heap").WriteTo(f, 0)
			f.Close()
			g, _ := os.Create(pf + ".goroutines")
			pprof.Lookup("goroutine").WriteTo(g, 1)
			g.Close()
		}
	}
	switch os.Args[1] {
	case "batch":
		batch(os.Args[2:])
	case "replay":
		replay(os.Args[2:])
	case "one":
		one(os.Args[2:])
	case "tape":
		tapeCmd(os.Args[2:])
	case "runtape":
		runtape(os.Args[2:])
	case "shrinkrace":
		shrinkRace(os.Args[2:])
	default:
		fmt.Fprintln(os.Stderr, "unknown subcommand")
		os.Exit(2)
	}
}

func getEngine(name string) eng.Engine {
	e, ok := engines[name]
	if !ok {
		fmt.Fprintln(os.Stderr, "unknown engine", name)
		os.Exit(2)
	}
	return e
}

var knownFindings []eng.KnownFinding

// hasClass finds a violation of the class that is not an instance of a recorded known finding
// (so that shrinking cannot drift from a new violation into a known one).
func hasClass(res *eng.Result, class string) *eng.Violation {
	for i := range res.Violations {
		if res.Violations[i].Class() == class && eng.MatchKnown(knownFindings, res.Violations[i]) == nil {
			return &res.Violations[i]
		}
	}
	return nil
}

var shrinkOrder = []string{"fault", "arrival", "sched", "time", "swarm", "gen"}

func one(args []string) {
	fs := flag.NewFlagSet("one", flag.ExitOnError)
	en := fs.String("engine", "conc", "")
	seed := fs.Uint64("seed", 1, "master seed")
	idx := fs.Uint64("index", 0, "run index")
	fs.Parse(args)
	e := getEngine(*en)
	t := tape.New(tape.RunSeed(*seed, *idx))
	res := e.Run(t, eng.Opts{Trace: true})
	for _, l := range res.Trace {
		fmt.Println(l)
	}
	fmt.Printf("steps=%d ticks=%d switches=%d nontrivial=%v schedhash=%x faults=%v probes=%v\n", res.Steps, res.Ticks, res.Switches, res.Nontrivial, res.SchedHash, res.Faults, res.Probes)
	for _, v := range res.Violations {
		fmt.Printf("VIOLATION-DETAIL %s: %s\n", v.Class(), v.Detail)
	}
}

func batch(args []string) {
	fs := flag.NewFlagSet("batch", flag.ExitOnError)
	en := fs.String("engine", "conc", "")
	seed := fs.Uint64("seed", 1, "master seed")
	from := fs.Uint64("from", 0, "first run index")
	stride := fs.Uint64("stride", 1, "")
	n := fs.Int("n", 1000, "max runs")
	budget := fs.Duration("budget", 20*time.Second, "")
	out := fs.String("out", "", "summary json")
	hashes := fs.String("hashes", "", "file receiving the signatures of non-trivial runs")
	marker := fs.String("marker", "", "file receiving the index of the run in progress")
	replays := fs.String("replays", "/verif/replays", "")
	maxViol := fs.Int("maxviol", 3, "")
	knownPath := fs.String("known", "/verif/known_findings.json", "known-findings file")
	logh := fs.String("loghash", "", "file receiving one line per run: index and a hash of the complete event log (determinism self-test)")
	fs.Parse(args)
	e := getEngine(*en)
	sum := &Summary{Engine: e.Name(), Race: sched.RaceOn, Faults: map[string]int{}, Sites: map[string]int{}, Probes: map[string]int{}, SwitchPairs: map[string]int{}, Known: map[string]int{},
		FirstIndex: *from, DistinctRule: e.DistinctRule()}
	var mf *os.File
	if *marker != "" {
		mf, _ = os.OpenFile(*marker, os.O_CREATE|os.O_WRONLY|os.O_TRUNC, 0o644)
	}
	var lf *os.File
	if *logh != "" {
		lf, _ = os.Create(*logh)
		defer lf.Close()
	}
	var sigs []uint64
	seenClass := map[string]bool{}
	known := eng.LoadKnown(*knownPath)
	knownFindings = known
	start := time.Now()
	deadline := start.Add(*budget)
	idx := *from
	for k := 0; k < *n; k++ {
		if time.Now().After(deadline) {
			break
		}
		if mf != nil {
			mf.WriteAt([]byte(fmt.Sprintf("%020d\n", idx)), 0)
		}
		rs := tape.RunSeed(*seed, idx)
		t := tape.New(rs)
		trace := len(sum.Samples) < 2 && k >= 2
		res := e.Run(t, eng.Opts{Trace: trace || lf != nil})
		sum.Runs++
		if res.Cases > 0 {
			sum.Evaluations += res.Cases
		} else {
			sum.Evaluations++
		}
		sum.LastIndex = idx
		if len(res.Sigs) > 0 {
			sum.Nontrivial += len(res.Sigs)
			sigs = append(sigs, res.Sigs...)
		} else if res.Nontrivial {
			sum.Nontrivial++
			sigs = append(sigs, res.Sig)
		}
		sum.Requests += res.Requests
		sum.Steps += res.Steps
		sum.Ticks += res.Ticks
		sum.Switches += res.Switches
		sum.Blocked += res.Blocked
		for k, v := range res.Faults {
			sum.Faults[k] += v
		}
		for k, v := range res.Sites {
			sum.Sites[world.SiteName(k)] += v
		}
		for k, v := range res.Probes {
			sum.Probes[k] += v
		}
		for k, v := range res.SwitchPairs {
			sum.SwitchPairs[world.SiteName(int(k[0]))+">"+world.SiteName(int(k[1]))] += v
		}
		if lf != nil && os.Getenv("SIM_DUMP") != "" {
			for _, l := range res.Trace {
				fmt.Fprintf(os.Stderr, "%d| %s\n", idx, l)
			}
		}
		if lf != nil {
			h := uint64(0)
			for _, l := range res.Trace {
				h = eng.Hash64(h, l)
			}
			fmt.Fprintf(lf, "%d %016x %016x\n", idx, h, res.SchedHash)
		}
		if trace && res.Nontrivial && len(res.Violations) == 0 {
			sum.Samples = append(sum.Samples, map[string]any{"run_index": idx, "run_seed": rs, "trace": res.Trace})
		}
		for _, v := range res.Violations {
			if k := eng.MatchKnown(known, v); k != nil {
				sum.Known[k.Property+" "+k.What]++
				continue
			}
			if seenClass[v.Class()] {
				continue
			}
			seenClass[v.Class()] = true
			wu := &Warmup{From: *from, Stride: *stride, Count: k, OnlyIfNeeded: true}
			if cr, ok := e.(crossRunner); ok && cr.CrossRunState() {
				wu.OnlyIfNeeded = false
			}
			ref := record(e, *seed, idx, rs, t, v, *replays, !res.Poisoned, wu)
			sum.Violations = append(sum.Violations, ref)
		}
		if len(sum.Violations) >= *maxViol || res.Poisoned {
			break
		}
		idx += *stride
	}
	sum.WallS = time.Since(start).Seconds()
	if *hashes != "" {
		buf := make([]byte, 8*len(sigs))
		for i, s := range sigs {
			binary.LittleEndian.PutUint64(buf[8*i:], s)
		}
		os.WriteFile(*hashes, buf, 0o644)
	}
	b, _ := json.Marshal(sum)
	if *out != "" {
		os.WriteFile(*out, b, 0o644)
	} else {
		os.Stdout.Write(b)
		fmt.Println()
	}
	static.Cleanup()
	heapDump()
	os.Exit(0) // do not wait for goroutines a hanging run may have left behind
}

// record shrinks a failing run in-process and writes its replay file.
func record(e eng.Engine, master, idx, rs uint64, t *tape.Tape, v eng.Violation, dir string, doShrink bool, wu *Warmup) VioRef {
	class := v.Class()
	rec := shrink.Rec(t.Record())
	orig := map[string]int{}
	for k, l := range rec {
		orig[k] = len(l)
	}
	test := func(c shrink.Rec) (bool, shrink.Rec, map[string][]tape.Span) {
		tt := tape.Replay(rs, c)
		r := e.Run(tt, eng.Opts{})
		if hasClass(r, class) == nil {
			return false, nil, nil
		}
		return true, shrink.Rec(tt.Record()), tt.Spans()
	}
	if !doShrink {
		// A task is stuck outside the scheduler: nothing more may run in this process. The
		// unshrunk tape is recorded; replay happens in a fresh process.
		rf := ReplayFile{Property: v.Property, Engine: e.Name(), Rule: v.Rule, MasterSeed: master, RunIndex: idx, RunSeed: rs,
			Build: map[string]any{"tags": "verif", "race": sched.RaceOn, "autoyield": world.AutoMode}, Tape: t.Record(), SchedHash: "", Violation: v, Original: orig,
			Note: "not minimised: the code under test hung or spun outside the scheduler, which poisons the process"}
		os.MkdirAll(dir, 0o755)
		path := filepath.Join(dir, fmt.Sprintf("%s-%s-%d-hang.json", v.Property, e.Name(), idx))
		b, _ := json.MarshalIndent(rf, "", " ")
		os.WriteFile(path, b, 0o644)
		return VioRef{Class: class, Replay: path, V: v}
	}
	best, attempts := shrink.Shrink(rec, t.Spans(), shrinkOrder, test, 500, time.Now().Add(30*time.Second))
	tt := tape.Replay(rs, best)
	r := e.Run(tt, eng.Opts{Trace: true})
	fv := hasClass(r, class)
	note := ""
	if fv == nil {
		// should not happen: fall back to the unshrunk tape
		best = rec
		tt = tape.Replay(rs, best)
		r = e.Run(tt, eng.Opts{Trace: true})
		fv = hasClass(r, class)
		note = "shrunk tape did not reproduce; unshrunk tape recorded"
		if fv == nil {
			fv = &v
			note = "violation did not reproduce in-process from its own tape"
		}
	}
	if wu != nil && wu.OnlyIfNeeded {
		wu.Unminimised = rec
	}
	rf := ReplayFile{Property: v.Property, Engine: e.Name(), Rule: v.Rule, MasterSeed: master, RunIndex: idx, RunSeed: rs,
		Build: map[string]any{"tags": "verif", "race": sched.RaceOn, "autoyield": world.AutoMode}, Tape: tt.Record(), SchedHash: strconv.FormatUint(r.SchedHash, 16),
		Violation: *fv, Trace: r.Trace, Original: orig, Attempts: attempts, Note: note, Warmup: wu}
	os.MkdirAll(dir, 0o755)
	h := eng.Hash64(0, class)
	for _, n := range tt.Names() {
		h = eng.HashU32(h, tt.Record()[n])
	}
	path := filepath.Join(dir, fmt.Sprintf("%s-%s-%d-%08x.json", v.Property, e.Name(), idx, uint32(h)))
	b, _ := json.MarshalIndent(rf, "", " ")
	os.WriteFile(path, b, 0o644)
	return VioRef{Class: class, Replay: path, V: *fv}
}

func replay(args []string) {
	fs := flag.NewFlagSet("replay", flag.ExitOnError)
	file := fs.String("file", "", "")
	quiet := fs.Bool("q", false, "")
	fs.Parse(args)
	b, err := os.ReadFile(*file)
	if err != nil {
		fmt.Fprintln(os.Stderr, err)
		os.Exit(2)
	}
	var rf ReplayFile
	if err := json.Unmarshal(b, &rf); err != nil {
		fmt.Fprintln(os.Stderr, err)
		os.Exit(2)
	}
	if rf.Rule == "data-race" {
		if !sched.RaceOn {
			fmt.Fprintln(os.Stderr, "a data-race replay needs the -race build")
			os.Exit(2)
		}
		replayRace(&rf, *file, *quiet)
		return
	}
	e := getEngine(rf.Engine)
	if rf.Warmup != nil && !rf.Warmup.OnlyIfNeeded {
		for k := 0; k < rf.Warmup.Count; k++ {
			i := rf.Warmup.From + uint64(k)*rf.Warmup.Stride
			e.Run(tape.New(tape.RunSeed(rf.MasterSeed, i)), eng.Opts{})
		}
		fmt.Printf("replay: re-executed the %d runs that preceded this one in its worker process\n", rf.Warmup.Count)
	}
	t := tape.Replay(rf.RunSeed, rf.Tape)
	res := e.Run(t, eng.Opts{Trace: true})
	class := rf.Property + "/" + rf.Rule
	kd := os.Getenv("VERIF_DIR")
	if kd == "" {
		kd = "/verif"
	}
	knownFindings = eng.LoadKnown(filepath.Join(kd, "known_findings.json"))
	if !*quiet {
		for _, l := range res.Trace {
			fmt.Println(l)
		}
	}
	same := rf.SchedHash == "" || strconv.FormatUint(res.SchedHash, 16) == rf.SchedHash
	fmt.Printf("replay: schedule_hash=%x recorded=%s identical=%v\n", res.SchedHash, rf.SchedHash, same)
	if v := hasClass(res, class); v != nil {
		fmt.Printf("replay: reproduced %s\n%s\n", class, v.Detail)
		fmt.Printf("VIOLATION property=%s replay=%s\n", rf.Property, *file)
		os.Exit(1)
	}
	if rf.Warmup != nil && rf.Warmup.OnlyIfNeeded && rf.Warmup.Count > 0 {
		fmt.Printf("replay: not reproduced alone; re-executing the %d runs that preceded it in its worker process (the code under test may keep state between instances)\n", rf.Warmup.Count)
		for k := 0; k < rf.Warmup.Count; k++ {
			i := rf.Warmup.From + uint64(k)*rf.Warmup.Stride
			e.Run(tape.New(tape.RunSeed(rf.MasterSeed, i)), eng.Opts{})
		}
		tapes := []map[string][]uint32{rf.Tape}
		if rf.Warmup.Unminimised != nil {
			tapes = append(tapes, rf.Warmup.Unminimised)
		}
		for ti, tp := range tapes {
			res = e.Run(tape.Replay(rf.RunSeed, tp), eng.Opts{Trace: true})
			if v := hasClass(res, class); v != nil {
				which := "the minimised tape"
				if ti == 1 {
					which = "the tape as first recorded"
				}
				fmt.Printf("replay: reproduced %s with %s after the preceding runs: the violation depends on state that outlives an instance\n%s\n", class, which, v.Detail)
				fmt.Printf("VIOLATION property=%s replay=%s\n", rf.Property, *file)
				os.Exit(1)
			}
		}
	}
	var other []string
	for _, v := range res.Violations {
		other = append(other, v.Class())
	}
	sort.Strings(other)
	fmt.Printf("replay: %s not reproduced on this tree (other violations: %v)\n", class, other)
}
