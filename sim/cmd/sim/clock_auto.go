//go:build simauto

package main

import (
	"verif/sim/internal/sched"

	"github.com/flamego/flamego"
)

// Instrumented builds: flamego's clock is the simulator's (see internal/sched/clock.go).
func init() {
	flamego.SetSimClock(flamego.SimClockFuncs{Now: sched.Now, Sleep: sched.Sleep, After: sched.After, AfterFunc: sched.AfterFunc})
}
