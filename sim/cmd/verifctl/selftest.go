package main

import (
	"fmt"
	"os"
	"os/exec"
	"path/filepath"
	"strconv"
	"strings"
	"sync"
)

// selftest is the determinism gate: for every engine the same seeds are executed in many
// processes — plain and -race builds, GOMAXPROCS 1/4/16, twice each, all at once so the
// machine is loaded — and the complete event logs (hashed per run, together with the
// schedule hash) must be identical everywhere.
func selftest(runs int) int {
	plain, err := build(false)
	if err != nil {
		fatal(2, "%v", err)
	}
	race, err := build(true)
	if err != nil {
		fatal(2, "%v", err)
	}
	auto, err := buildX(false, true)
	if err != nil {
		fatal(2, "%v", err)
	}
	tmp, _ := os.MkdirTemp(filepath.Join(verifDir, ".cache"), "selftest-")
	defer os.RemoveAll(tmp)
	engines := []string{"chain", "conc", "rw", "recovery", "static"}
	type job struct {
		engine, bin, tag string
		procs            int
		out              string
	}
	var jobs []job
	for _, e := range engines {
		for _, b := range []struct {
			bin, tag string
		}{{plain, "plain"}, {race, "race"}, {auto, "auto"}} {
			for _, p := range []int{1, 4, 16} {
				for rep := 0; rep < 2; rep++ {
					tag := fmt.Sprintf("%s-%s-p%d-r%d", e, b.tag, p, rep)
					jobs = append(jobs, job{e, b.bin, tag, p, filepath.Join(tmp, tag+".log")})
				}
			}
		}
	}
	sem := make(chan struct{}, 24)
	var wg sync.WaitGroup
	var mu sync.Mutex
	fails := 0
	for _, j := range jobs {
		wg.Add(1)
		go func(j job) {
			defer wg.Done()
			sem <- struct{}{}
			defer func() { <-sem }()
			n := runs
			if strings.Contains(j.tag, "race") {
				n = runs / 3
			}
			if strings.Contains(j.tag, "-auto-") {
				n = runs / 6
			}
			cmd := exec.Command(j.bin, "batch", "-engine", j.engine, "-seed", "424242", "-n", strconv.Itoa(n), "-budget", "600s", "-out", j.out+".json",
				"-loghash", j.out, "-replays", filepath.Join(tmp, "replays"))
			cmd.Env = append(os.Environ(), "GOMAXPROCS="+strconv.Itoa(j.procs), "SIM_TMP="+tmp, "GORACE=halt_on_error=1 exitcode=66", autoEnv(strings.Contains(j.tag, "-auto-")))
			if b, err := cmd.CombinedOutput(); err != nil {
				mu.Lock()
				fails++
				fmt.Printf("selftest: %s failed: %v %s\n", j.tag, err, tail(string(b), 500))
				mu.Unlock()
			}
		}(j)
	}
	wg.Wait()
	for _, e := range engines {
		// Same build kind: the complete event log and the schedule must be identical. Across
		// build kinds (plain vs -race) the schedule must be identical; the event log may differ
		// in one benign way (development-mode panic pages print program counters, so their
		// byte length depends on the build) and is therefore compared within a kind only.
		ref := map[string]map[string]string{"plain": {}, "race": {}, "auto": {}}
		refTag := map[string]string{}
		total, diverged := 0, 0
		for _, j := range jobs {
			if j.engine != e {
				continue
			}
			kind := "plain"
			if strings.Contains(j.tag, "-race-") {
				kind = "race"
			}
			if strings.Contains(j.tag, "-auto-") {
				kind = "auto" // a different program (a yield before every statement): compared with itself only
			}
			b, err := os.ReadFile(j.out)
			if err != nil {
				continue
			}
			lines := strings.Split(strings.TrimSpace(string(b)), "\n")
			if refTag[kind] == "" {
				refTag[kind] = j.tag
				for _, l := range lines {
					f := strings.SplitN(l, " ", 2)
					if len(f) == 2 {
						ref[kind][f[0]] = f[1]
					}
				}
				continue
			}
			for _, l := range lines {
				f := strings.SplitN(l, " ", 2)
				if len(f) != 2 {
					continue
				}
				want, ok := ref[kind][f[0]]
				if !ok {
					continue
				}
				total++
				if want != f[1] {
					diverged++
					if diverged <= 3 {
						fmt.Printf("selftest: %s run %s diverges between %s and %s\n", e, f[0], refTag[kind], j.tag)
					}
				}
			}
		}
		cross := 0
		for idx, v := range ref["race"] {
			if p, ok := ref["plain"][idx]; ok {
				total++
				cross++
				if strings.Fields(p)[1] != strings.Fields(v)[1] {
					diverged++
					fmt.Printf("selftest: %s run %s: schedule differs between plain and -race builds\n", e, idx)
				}
			}
		}
		fmt.Printf("selftest determinism: engine=%s seeds=%d comparisons=%d (of which plain-vs-race schedule: %d) diverged=%d\n", e, len(ref["plain"]), total, cross, diverged)
		if diverged > 0 || len(ref["plain"]) == 0 {
			fails++
		}
	}
	if fails > 0 {
		fmt.Println("selftest: FAILED")
		return 2
	}
	fmt.Println("selftest: ok (every seed produced the same event log in every process, build and GOMAXPROCS)")
	return 0
}
