// Command verifctl is the controller behind /verif/check.sh: it rebuilds the
// simulation worker against /repo's working tree (hooks on), fans simulated
// runs out to worker processes, merges their summaries, confirms and reports
// violations, and writes the evidence file.
package main

import (
	"bytes"
	"context"
	"encoding/binary"
	"encoding/json"
	"fmt"
	"os"
	"os/exec"
	"path/filepath"
	"runtime"
	"sort"
	"strconv"
	"strings"
	"sync"
	"time"

	"verif/sim/internal/eng"
)

var verifDir = func() string {
	if d := os.Getenv("VERIF_DIR"); d != "" {
		return d
	}
	return "/verif"
}()

type phase struct {
	Engine string
	Race   bool
	Budget time.Duration
	Auto   bool // instrumented build: a yield before every statement of flamego (cmd/autoyield)
}

type propCfg struct {
	Engine   string
	Quick    []phase
	Thorough []phase
}

var props = map[string]propCfg{
	"C03": {Engine: "chain",
		Quick:    []phase{{"chain", false, 25 * time.Second, false}, {"chain", true, 15 * time.Second, false}, {"chain", false, 8 * time.Second, true}},
		Thorough: []phase{{"chain", false, 9 * time.Minute, false}, {"chain", true, 3 * time.Minute, false}, {"chain", false, 2 * time.Minute, true}}},
	"C13": {Engine: "rw",
		Quick:    []phase{{"rw", false, 15 * time.Second, false}, {"rw", true, 12 * time.Second, false}, {"rw", false, 8 * time.Second, true}, {"rw", true, 8 * time.Second, true}},
		Thorough: []phase{{"rw", false, 5 * time.Minute, false}, {"rw", true, 3 * time.Minute, false}, {"rw", false, 2 * time.Minute, true}, {"rw", true, 2 * time.Minute, true}}},
	"C15": {Engine: "recovery",
		Quick:    []phase{{"recovery", false, 25 * time.Second, false}, {"recovery", true, 15 * time.Second, false}, {"recovery", false, 10 * time.Second, true}},
		Thorough: []phase{{"recovery", false, 7 * time.Minute, false}, {"recovery", true, 5 * time.Minute, false}, {"recovery", false, 2 * time.Minute, true}, {"recovery", true, 2 * time.Minute, true}}},
	"C16": {Engine: "static",
		Quick:    []phase{{"static", false, 25 * time.Second, false}, {"static", true, 15 * time.Second, false}, {"static", false, 10 * time.Second, true}},
		Thorough: []phase{{"static", false, 8 * time.Minute, false}, {"static", true, 4 * time.Minute, false}, {"static", false, 2 * time.Minute, true}, {"static", true, 2 * time.Minute, true}}},
	"C05": {Engine: "conc",
		Quick:    []phase{{"conc", false, 20 * time.Second, false}, {"conc", true, 20 * time.Second, false}, {"conc", false, 25 * time.Second, true}, {"conc", true, 15 * time.Second, true}},
		Thorough: []phase{{"conc", false, 5 * time.Minute, false}, {"conc", true, 9 * time.Minute, false}, {"conc", false, 4 * time.Minute, true}, {"conc", true, 6 * time.Minute, true}}},
}

// Summary mirrors cmd/sim's batch summary.
type Summary struct {
	Engine       string         `json:"engine"`
	Race         bool           `json:"race"`
	Evaluations  int            `json:"evaluations"`
	Runs         int            `json:"runs"`
	Nontrivial   int            `json:"nontrivial"`
	Requests     int            `json:"requests"`
	Steps        int            `json:"steps"`
	Ticks        int64          `json:"ticks"`
	Switches     int            `json:"switches"`
	Blocked      int            `json:"blocked_handovers"`
	Faults       map[string]int `json:"faults"`
	Sites        map[string]int `json:"sites"`
	Probes       map[string]int `json:"probes"`
	SwitchPairs  map[string]int `json:"switch_pairs"`
	Violations   []VioRef       `json:"violations"`
	Known        map[string]int `json:"known"`
	Samples      []any          `json:"samples"`
	WallS        float64        `json:"wall_s"`
	LastIndex    uint64         `json:"last_index"`
	DistinctRule string         `json:"distinct_rule"`
	Extra        map[string]int `json:"extra"`
}

type Violation struct {
	Property string            `json:"property"`
	Rule     string            `json:"rule"`
	Detail   string            `json:"detail"`
	Shape    map[string]string `json:"shape,omitempty"`
}

type VioRef struct {
	Class  string    `json:"class"`
	Replay string    `json:"replay"`
	V      Violation `json:"violation"`
}

func loadKnown() []eng.KnownFinding {
	return eng.LoadKnown(filepath.Join(verifDir, "known_findings.json"))
}

func matchKnown(k []eng.KnownFinding, v Violation) *eng.KnownFinding {
	return eng.MatchKnown(k, eng.Violation{Property: v.Property, Rule: v.Rule, Detail: v.Detail, Shape: v.Shape})
}

func goEnv() []string {
	env := os.Environ()
	env = append(env, "GOFLAGS=-mod=mod", "GOPROXY=off", "GOSUMDB=off", "GOTOOLCHAIN=local", "CGO_ENABLED=1")
	return env
}

func build(race bool) (string, error) { return buildX(race, false) }

// buildX builds the worker against /repo's working tree with the hooks on; auto additionally
// substitutes (go build -overlay) an instrumented copy of flamego's sources that yields before
// every statement. /repo itself is never modified.
func buildX(race, auto bool) (string, error) {
	out := filepath.Join(verifDir, ".bin", "sim")
	args := []string{"build", "-tags", "verif"}
	if auto {
		out += "-auto"
		ay := filepath.Join(verifDir, ".bin", "autoyield")
		cmd := exec.Command("go", "build", "-o", ay, "./cmd/autoyield")
		cmd.Dir = filepath.Join(verifDir, "sim")
		cmd.Env = goEnv()
		if b, err := cmd.CombinedOutput(); err != nil {
			return "", fmt.Errorf("build of the instrumenter failed: %v\n%s", err, b)
		}
		dir := filepath.Join(verifDir, ".cache", "auto")
		os.RemoveAll(dir)
		if b, err := exec.Command(ay, "/repo", dir).CombinedOutput(); err != nil {
			return "", fmt.Errorf("instrumentation failed: %v\n%s", err, b)
		}
		args = []string{"build", "-tags", "verif,simauto", "-overlay", filepath.Join(dir, "overlay.json")}
	}
	if race {
		out += "-race"
		args = append(args, "-race")
	}
	args = append(args, "-o", out, "./cmd/sim")
	cmd := exec.Command("go", args...)
	cmd.Dir = filepath.Join(verifDir, "sim")
	cmd.Env = goEnv()
	b, err := cmd.CombinedOutput()
	if err != nil {
		return "", fmt.Errorf("build failed: %v\n%s", err, b)
	}
	return out, nil
}

func fatal(code int, f string, a ...any) {
	fmt.Fprintf(os.Stderr, f+"\n", a...)
	os.Exit(code)
}

type phaseResult struct {
	Phase     phase
	Seed      uint64
	Sum       Summary
	Sigs      map[uint64]struct{}
	Workers   int
	RaceHits  []raceHit
	InfraErrs []string
	Wall      float64
}

type raceHit struct {
	Index     uint64
	Report    string
	Replay    string
	Confirmed int
}

var workers = func() int {
	n := runtime.NumCPU()
	if s := os.Getenv("VERIF_WORKERS"); s != "" {
		if v, err := strconv.Atoi(s); err == nil && v > 0 {
			n = v
		}
	}
	if n > 16 {
		n = 16
	}
	return n
}()

func runPhase(ph phase, bin string, seed uint64, tmp string) *phaseResult {
	pr := &phaseResult{Phase: ph, Sigs: map[uint64]struct{}{}, Workers: workers}
	pr.Sum.Faults, pr.Sum.Sites, pr.Sum.Probes, pr.Sum.SwitchPairs, pr.Sum.Extra, pr.Sum.Known = map[string]int{}, map[string]int{}, map[string]int{}, map[string]int{}, map[string]int{}, map[string]int{}
	start := time.Now()
	var wg sync.WaitGroup
	var mu sync.Mutex
	tag := ph.Engine
	if ph.Auto {
		tag += "-auto"
	}
	if ph.Race {
		tag += "-race"
	}
	for w := 0; w < workers; w++ {
		wg.Add(1)
		go func(w int) {
			defer wg.Done()
			from := uint64(w)
			remaining := ph.Budget
			for attempt := 0; attempt < 1; attempt++ {
				base := filepath.Join(tmp, fmt.Sprintf("%s-%d-%d", tag, w, attempt))
				args := []string{"batch", "-engine", ph.Engine, "-seed", strconv.FormatUint(seed, 10), "-from", strconv.FormatUint(from, 10),
					"-stride", strconv.Itoa(workers), "-n", "100000000", "-budget", remaining.String(), "-out", base + ".json", "-hashes", base + ".sig",
					"-marker", base + ".mark", "-replays", filepath.Join(verifDir, "replays"), "-known", filepath.Join(verifDir, "known_findings.json")}
				ctx, cancelCtx := context.WithTimeout(context.Background(), remaining+remaining/2+120*time.Second)
				defer cancelCtx()
				cmd := exec.CommandContext(ctx, bin, args...)
				cmd.Env = append(os.Environ(), "GOMAXPROCS=2", "GOGC=400", "SIM_TMP="+tmp, autoEnv(ph.Auto))
				if ph.Race {
					cmd.Env = append(cmd.Env, "GORACE=halt_on_error=1 exitcode=66 log_path="+base+".racelog")
				}
				var stderr bytes.Buffer
				cmd.Stderr = &stderr
				cmd.Stdout = &stderr
				err := cmd.Run()
				code := 0
				if ee, ok := err.(*exec.ExitError); ok {
					code = ee.ExitCode()
				} else if err != nil {
					code = -1
				}
				if code == 0 {
					mergeSummary(pr, &mu, base)
					return
				}
				mb, _ := os.ReadFile(base + ".mark")
				idx, _ := strconv.ParseUint(strings.TrimSpace(string(mb)), 10, 64)
				if code == 66 && ph.Race && eng.RaceClass(readRaceLogs(base+".racelog")) != "" {
					rep := readRaceLogs(base + ".racelog")
					mu.Lock()
					pr.RaceHits = append(pr.RaceHits, raceHit{Index: idx, Report: rep})
					// the runs before the hit are lost with the process; count nothing for them
					mu.Unlock()
					_ = from
					return
				}
				mu.Lock()
				pr.InfraErrs = append(pr.InfraErrs, fmt.Sprintf("worker %d (%s) exit %d at run index %d: %s", w, tag, code, idx, tail(stderr.String(), 1500)))
				mu.Unlock()
				return
			}
		}(w)
	}
	wg.Wait()
	pr.Wall = time.Since(start).Seconds()
	return pr
}

func head(s string, n int) string {
	if len(s) > n {
		return s[:n] + "..."
	}
	return s
}

func tail(s string, n int) string {
	if len(s) > n {
		return "..." + s[len(s)-n:]
	}
	return s
}

func readRaceLogs(prefix string) string {
	m, _ := filepath.Glob(prefix + ".*")
	var sb strings.Builder
	for _, f := range m {
		b, _ := os.ReadFile(f)
		sb.Write(b)
	}
	return sb.String()
}

func mergeSummary(pr *phaseResult, mu *sync.Mutex, base string) {
	b, err := os.ReadFile(base + ".json")
	if err != nil {
		mu.Lock()
		pr.InfraErrs = append(pr.InfraErrs, "missing summary "+base)
		mu.Unlock()
		return
	}
	var s Summary
	if err := json.Unmarshal(b, &s); err != nil {
		mu.Lock()
		pr.InfraErrs = append(pr.InfraErrs, "bad summary "+base+": "+err.Error())
		mu.Unlock()
		return
	}
	sig, _ := os.ReadFile(base + ".sig")
	mu.Lock()
	defer mu.Unlock()
	t := &pr.Sum
	t.Engine, t.Race, t.DistinctRule = s.Engine, s.Race, s.DistinctRule
	t.Evaluations += s.Evaluations
	t.Runs += s.Runs
	t.Nontrivial += s.Nontrivial
	t.Requests += s.Requests
	t.Steps += s.Steps
	t.Ticks += s.Ticks
	t.Switches += s.Switches
	t.Blocked += s.Blocked
	if s.WallS > t.WallS {
		t.WallS = s.WallS
	}
	for k, v := range s.Faults {
		t.Faults[k] += v
	}
	for k, v := range s.Sites {
		t.Sites[k] += v
	}
	for k, v := range s.Probes {
		t.Probes[k] += v
	}
	for k, v := range s.SwitchPairs {
		t.SwitchPairs[k] += v
	}
	for k, v := range s.Extra {
		t.Extra[k] += v
	}
	for k, v := range s.Known {
		t.Known[k] += v
	}
	t.Violations = append(t.Violations, s.Violations...)
	if len(t.Samples) < 3 {
		t.Samples = append(t.Samples, s.Samples...)
	}
	for i := 0; i+8 <= len(sig); i += 8 {
		pr.Sigs[binary.LittleEndian.Uint64(sig[i:])] = struct{}{}
	}
}

func raceClass(rep string) string { return eng.RaceClass(rep) }

var harnessRaces int
var autoSkipped bool
var irreproducibleStalls int

// driverArtefact: one of the two accesses was made by the scheduler's driver goroutine, which runs
// with its synchronisation events hidden from the detector (that is what keeps the tasks mutually
// concurrent); a report involving it says nothing about the code under test. The same holds for a
// report in which no stack passes through flamego at all.
func driverArtefact(rep string) bool {
	first := rep
	if i := strings.Index(rep, "Goroutine "); i > 0 {
		first = rep[:i] // the two access stacks come before the goroutine-creation stacks
	}
	if strings.Contains(first, "verif/sim/internal/sched.Run()") {
		return true
	}
	return !strings.Contains(first, "github.com/flamego/flamego")
}

func harnessOnly(cls string) bool {
	parts := strings.Split(cls, " <-> ")
	if len(parts) != 2 {
		return false
	}
	return strings.HasPrefix(parts[0], "verif/sim/") && strings.HasPrefix(parts[1], "verif/sim/")
}

func main() {
	if len(os.Args) >= 2 && os.Args[1] == "prebuild" {
		os.MkdirAll(filepath.Join(verifDir, ".bin"), 0o755)
		os.MkdirAll(filepath.Join(verifDir, ".cache"), 0o755)
		for _, v := range [][2]bool{{false, false}, {true, false}, {false, true}, {true, true}} {
			if _, err := buildX(v[0], v[1]); err != nil {
				fatal(2, "%v", err)
			}
		}
		fmt.Println("prebuild ok")
		return
	}
	if len(os.Args) >= 2 && os.Args[1] == "selftest" {
		n := 300
		if len(os.Args) >= 3 {
			if v, err := strconv.Atoi(os.Args[2]); err == nil {
				n = v
			}
		}
		os.MkdirAll(filepath.Join(verifDir, ".cache"), 0o755)
		os.Exit(selftest(n))
	}
	if len(os.Args) < 3 {
		fatal(2, "usage: verifctl <property> quick|thorough|replay [path] | selftest [n]")
	}
	id, mode := os.Args[1], os.Args[2]
	cfg, ok := props[id]
	if !ok {
		fatal(2, "property %s is not claimed", id)
	}
	seed := uint64(1)
	if s := os.Getenv("VERIF_SEED"); s != "" {
		if v, err := strconv.ParseUint(s, 10, 64); err == nil {
			seed = v
		} else if v, err := strconv.ParseInt(s, 10, 64); err == nil {
			seed = uint64(v)
		}
	}
	os.MkdirAll(filepath.Join(verifDir, ".bin"), 0o755)
	os.MkdirAll(filepath.Join(verifDir, "replays"), 0o755)
	os.MkdirAll(filepath.Join(verifDir, "evidence"), 0o755)

	if mode == "replay" {
		if len(os.Args) < 4 {
			fatal(2, "replay needs a path")
		}
		doReplay(os.Args[3])
		return
	}
	var phases []phase
	switch mode {
	case "quick":
		phases = cfg.Quick
	case "thorough":
		phases = cfg.Thorough
	default:
		fatal(2, "unknown mode %s", mode)
	}
	if only := os.Getenv("VERIF_ONLY"); only != "" { // experimentation knob (never set by the registered commands): plain,race,auto,auto-race
		var keep []phase
		for _, ph := range phases {
			tag := map[[2]bool]string{{false, false}: "plain", {true, false}: "race", {false, true}: "auto", {true, true}: "auto-race"}[[2]bool{ph.Race, ph.Auto}]
			if strings.Contains(","+only+",", ","+tag+",") {
				keep = append(keep, ph)
			}
		}
		phases = keep
	}
	if s := os.Getenv("VERIF_BUDGET_SCALE"); s != "" {
		if f, err := strconv.ParseFloat(s, 64); err == nil && f > 0 {
			for i := range phases {
				phases[i].Budget = time.Duration(float64(phases[i].Budget) * f)
			}
		}
	}
	start := time.Now()
	tmp, err := os.MkdirTemp(filepath.Join(verifDir, ".cache"), "run-")
	if err != nil {
		os.MkdirAll(filepath.Join(verifDir, ".cache"), 0o755)
		tmp, err = os.MkdirTemp(filepath.Join(verifDir, ".cache"), "run-")
		if err != nil {
			fatal(2, "tmp: %v", err)
		}
	}
	defer os.RemoveAll(tmp)

	bins := map[bool]string{}
	abins := map[bool]string{}
	for _, ph := range phases {
		m := bins
		if ph.Auto {
			m = abins
		}
		if _, ok := m[ph.Race]; !ok {
			b, err := buildX(ph.Race, ph.Auto)
			if err != nil && ph.Auto {
				// The statement-level instrumentation is a rewrite of flamego's sources; if a tree
				// contains something the rewriter or the overlay build cannot digest, the phases on
				// the hand-placed hook sites still decide the property. Say so and go on.
				fmt.Printf("NOTE: the instrumented (autoyield) build is unavailable for this tree, its phases are skipped: %s\n", head(err.Error(), 600))
				autoSkipped = true
				m[ph.Race] = ""
				continue
			}
			if err != nil {
				os.RemoveAll(tmp)
				fatal(2, "%v", err)
			}
			m[ph.Race] = b
		}
	}
	if autoSkipped {
		var kept []phase
		for _, ph := range phases {
			if !ph.Auto {
				kept = append(kept, ph)
			}
		}
		phases = kept
	}
	binOf := func(ph phase) string {
		if ph.Auto {
			return abins[ph.Race]
		}
		return bins[ph.Race]
	}
	known := loadKnown()
	var results []*phaseResult
	for pi, ph := range phases {
		seed := seed + uint64(pi)*1000003
		fmt.Printf("phase engine=%s race=%v autoyield=%v budget=%s workers=%d seed=%d\n", ph.Engine, ph.Race, ph.Auto, ph.Budget, workers, seed)
		pr := runPhase(ph, binOf(ph), seed, tmp)
		pr.Seed = seed
		results = append(results, pr)
		fmt.Printf("  runs=%d cases=%d nontrivial=%d steps=%d violations=%d racehits=%d infra=%d wall=%.1fs\n", pr.Sum.Runs, pr.Sum.Evaluations, pr.Sum.Nontrivial, pr.Sum.Steps,
			len(pr.Sum.Violations), len(pr.RaceHits), len(pr.InfraErrs), pr.Wall)
	}

	// Report.
	exit := 0
	nviol := 0
	seenReplay := map[string]bool{}
	var knownLines []string
	for _, pr := range results {
		for _, e := range pr.InfraErrs {
			fmt.Fprintln(os.Stderr, "INFRASTRUCTURE:", e)
			exit = 2
		}
		for _, v := range pr.Sum.Violations {
			if seenReplay[v.Class] {
				continue
			}
			seenReplay[v.Class] = true
			if k := matchKnown(known, v.V); k != nil {
				knownLines = append(knownLines, fmt.Sprintf("KNOWN-FINDING: property=%s %s", v.V.Property, k.What))
				continue
			}
			// confirm by replaying the minimised file in a fresh process
			ok, out := replayFresh(binOf(pr.Phase), v.Replay)
			fmt.Printf("violation %s\n%s\n", v.Class, v.V.Detail)
			if !ok && strings.HasSuffix(v.Replay, "-hang.json") {
				// a stall that does not replay is the machine's, not the code's (a violation must
				// replay to count); it is counted in the evidence and otherwise ignored
				fmt.Printf("  (stall did not reproduce in a fresh process: ignored) %s\n", v.Replay)
				os.Remove(v.Replay)
				irreproducibleStalls++
				continue
			}
			if !ok {
				fmt.Printf("  (fresh-process replay did not reproduce: %s)\n", tail(out, 400))
				fmt.Fprintln(os.Stderr, "INFRASTRUCTURE: a violation found in a batch did not replay in a fresh process:", v.Replay)
				if exit == 0 {
					exit = 2
				}
				continue
			}
			nviol++
			fmt.Printf("VIOLATION property=%s replay=%s\n", id, v.Replay)
		}
		raceSeen := map[string]bool{}
		for i := range pr.RaceHits {
			h := &pr.RaceHits[i]
			cls := raceClass(h.Report)
			if raceSeen[cls] || len(raceSeen) >= 2 {
				continue
			}
			raceSeen[cls] = true
			if harnessOnly(cls) || driverArtefact(h.Report) {
				// both accesses are inside the simulator: a harness artefact (seen only when the code
				// under test hangs outside the scheduler and two goroutines overlap), never a verdict
				fmt.Printf("harness-only race report ignored: %s\n", cls)
				harnessRaces++
				continue
			}
			path := confirmRace(binOf(phase{Race: false, Auto: pr.Phase.Auto}), binOf(pr.Phase), pr.Phase, pr.Seed, h, tmp, id)
			fmt.Printf("data race in run %d (%s)\n%s\n", h.Index, cls, head(h.Report, 3500))
			if path == "" {
				fmt.Fprintln(os.Stderr, "INFRASTRUCTURE: could not record the racing run")
				if exit == 0 {
					exit = 2
				}
				continue
			}
			v := Violation{Property: id, Rule: "data-race", Detail: cls, Shape: map[string]string{"pair": cls}}
			if k := matchKnown(known, v); k != nil {
				knownLines = append(knownLines, fmt.Sprintf("KNOWN-FINDING: property=%s %s", id, k.What))
				continue
			}
			nviol++
			fmt.Printf("VIOLATION property=%s replay=%s\n", id, path)
		}
	}
	knownSeen := map[string]int{}
	for _, pr := range results {
		for k, v := range pr.Sum.Known {
			knownSeen[k] += v
		}
	}
	for _, k := range known {
		if k.Status == "open" && k.Property == id {
			knownLines = append(knownLines, fmt.Sprintf("KNOWN-FINDING: property=%s %s (rule %s; observed %d times in this run)", k.Property, k.What, k.Rule, knownSeen[k.Property+" "+k.What]))
		}
	}
	sort.Strings(knownLines)
	for i, l := range knownLines {
		if i == 0 || l != knownLines[i-1] {
			fmt.Println(l)
		}
	}
	writeEvidence(id, mode, seed, results, nviol, time.Since(start).Seconds())
	if nviol > 0 {
		exit = 1
	} else if harnessRaces > 0 && exit == 0 {
		fmt.Fprintln(os.Stderr, "INFRASTRUCTURE: only harness-internal race reports were produced")
		exit = 2
	}
	os.RemoveAll(tmp)
	os.Exit(exit)
}

func replayFresh(bin, path string) (bool, string) {
	ctx, cancel := context.WithTimeout(context.Background(), 400*time.Second)
	defer cancel()
	cmd := exec.CommandContext(ctx, bin, "replay", "-q", "-file", path)
	cmd.Env = append(os.Environ(), "GOMAXPROCS=2", autoEnv(strings.Contains(filepath.Base(bin), "-auto")))
	b, err := cmd.CombinedOutput()
	if ee, ok := err.(*exec.ExitError); ok && ee.ExitCode() == 1 && bytes.Contains(b, []byte("VIOLATION property=")) {
		return true, string(b)
	}
	return false, string(b)
}

// confirmRace re-executes the racing run alone in fresh processes, records
// its tape with the plain binary (the run is the same: the race build changes
// no choice), and writes the replay file.
func confirmRace(plain, raceBin string, ph phase, seed uint64, h *raceHit, tmp, id string) string {
	if plain == "" {
		b, err := buildX(false, ph.Auto)
		if err != nil {
			return ""
		}
		plain = b
	}
	out := filepath.Join(verifDir, "replays", fmt.Sprintf("%s-%s-race-%d-%d.json", id, ph.Engine, seed, h.Index))
	cmd := exec.Command(plain, "tape", "-engine", ph.Engine, "-seed", strconv.FormatUint(seed, 10), "-index", strconv.FormatUint(h.Index, 10),
		"-property", id, "-rule", "data-race", "-detail", raceClass(h.Report), "-report", head(h.Report, 6000), "-out", out)
	cmd.Env = append(os.Environ(), "SIM_TMP="+tmp, autoEnv(ph.Auto))
	if b, err := cmd.CombinedOutput(); err != nil {
		fmt.Fprintf(os.Stderr, "tape: %v %s\n", err, b)
		return ""
	}
	// minimise with child processes of the race build, then confirm
	budget := "90s"
	if b := os.Getenv("VERIF_RACE_SHRINK_BUDGET"); b != "" {
		budget = b // the regression over all seeded changes only needs the verdict, not minimal replays
	}
	cmd = exec.Command(raceBin, "shrinkrace", "-file", out, "-budget", budget)
	cmd.Env = append(os.Environ(), "GOMAXPROCS=2", "GORACE=log_path=/dev/null exitcode=0", "SIM_TMP="+tmp, autoEnv(ph.Auto))
	b, _ := cmd.CombinedOutput()
	fmt.Printf("  race minimisation: %s\n", strings.TrimSpace(tail(string(b), 600)))
	return out
}

func autoEnv(auto bool) string {
	if auto {
		return "SIM_AUTO=1"
	}
	return "SIM_AUTO=0"
}

func doReplay(path string) {
	b, err := os.ReadFile(path)
	if err != nil {
		fatal(2, "%v", err)
	}
	var rf struct {
		Build struct {
			Race bool `json:"race"`
			Auto bool `json:"autoyield"`
		} `json:"build"`
	}
	json.Unmarshal(b, &rf)
	bin, err := buildX(rf.Build.Race, rf.Build.Auto)
	if err != nil {
		fatal(2, "%v", err)
	}
	cmd := exec.Command(bin, "replay", "-file", path)
	cmd.Env = append(os.Environ(), "GOMAXPROCS=2", autoEnv(rf.Build.Auto))
	cmd.Stdout, cmd.Stderr = os.Stdout, os.Stderr
	err = cmd.Run()
	if ee, ok := err.(*exec.ExitError); ok {
		os.Exit(ee.ExitCode())
	} else if err != nil {
		fatal(2, "%v", err)
	}
}

func writeEvidence(id, mode string, seed uint64, results []*phaseResult, nviol int, wall float64) {
	sigs := map[uint64]struct{}{}
	cov := map[string]any{}
	evals, steps, reqs, runs := 0, 0, 0, 0
	var ticks int64
	faults, sites, probes, pairs, extra := map[string]int{}, map[string]int{}, map[string]int{}, map[string]int{}, map[string]int{}
	var samples []any
	var phasesOut []map[string]any
	knownObs := map[string]int{}
	rule := ""
	simWall := 0.0
	for _, pr := range results {
		for s := range pr.Sigs {
			sigs[s] = struct{}{}
		}
		evals += pr.Sum.Evaluations
		runs += pr.Sum.Runs
		steps += pr.Sum.Steps
		reqs += pr.Sum.Requests
		ticks += pr.Sum.Ticks
		simWall += pr.Wall
		for k, v := range pr.Sum.Faults {
			faults[k] += v
		}
		for k, v := range pr.Sum.Sites {
			sites[k] += v
		}
		for k, v := range pr.Sum.Probes {
			probes[k] += v
		}
		for k, v := range pr.Sum.SwitchPairs {
			pairs[k] += v
		}
		for k, v := range pr.Sum.Extra {
			extra[k] += v
		}
		for k, v := range pr.Sum.Known {
			knownObs[k] += v
		}
		if len(samples) < 3 {
			for _, s := range pr.Sum.Samples {
				if len(samples) < 3 {
					samples = append(samples, s)
				}
			}
		}
		if pr.Sum.DistinctRule != "" {
			rule = pr.Sum.DistinctRule
		}
		phasesOut = append(phasesOut, map[string]any{"engine": pr.Phase.Engine, "race_build": pr.Phase.Race, "autoyield_build": pr.Phase.Auto, "budget_s": pr.Phase.Budget.Seconds(),
			"master_seed": pr.Seed, "runs": pr.Sum.Runs, "cases": pr.Sum.Evaluations, "nontrivial_cases": pr.Sum.Nontrivial, "distinct_nontrivial": len(pr.Sigs), "steps": pr.Sum.Steps,
			"blocked_handovers": pr.Sum.Blocked, "race_reports": len(pr.RaceHits), "workers": pr.Workers, "wall_s": pr.Wall})
	}
	if len(samples) == 0 {
		samples = append(samples, "no sample trace was captured in this run")
	}
	cov["evaluations"] = evals
	cov["distinct_nontrivial"] = len(sigs)
	cov["rule"] = rule
	cov["samples"] = samples
	cov["requests_served"] = reqs
	cov["simulated_runs"] = runs
	cov["scheduler_steps"] = steps
	cov["virtual_ticks"] = ticks
	if simWall > 0 {
		cov["runs_per_hour"] = int(float64(runs) / simWall * 3600)
	}
	cov["faults_fired"] = faults
	cov["yield_site_hits"] = sites
	cov["reach_probes"] = probes
	cov["switch_pairs_distinct"] = len(pairs)
	cov["counters"] = extra
	cov["irreproducible_stalls_ignored"] = irreproducibleStalls
	cov["autoyield_phases_skipped_build_unavailable"] = autoSkipped
	cov["known_findings_observed"] = knownObs
	cov["phases"] = phasesOut
	cov["real_vs_stub"] = map[string]string{
		"real":          "all of flamego (router, tree matcher, context/chain, injector, ResponseWriter wrapper, Recovery, Logger, Renderer, Static), net/http's ServeContent/Redirect/Error helpers, http.Dir containment, charmbracelet/log",
		"stub":          "the underlying http.ResponseWriter (SpyWriter), the *http.Request (struct literal) and its cancelable context, handlers/BeforeFuncs/callbacks (simulated programs), the http.FileSystem (FaultFS over a real directory or MapFS), the log sink; package time as flamego's sources see it in the instrumented builds (virtual clock: Now/Since/Until/Sleep/After/AfterFunc; timer callbacks are scheduled tasks)",
		"not_simulated": "Flame.Run/Stop, net/http server, HTTP parsing, sockets, TLS; time.NewTimer/Ticker and context.WithTimeout inside flamego (none on the pinned tree) and every clock read in the plain builds stay on the wall clock",
	}
	ev := map[string]any{
		"property_id": id, "tier": mode, "seed": seed, "level": "exploration", "coverage": cov, "wall_s": wall, "violations": nviol,
		"assumptions": []string{
			"sampling, not proof: seeded search over schedules, workloads and fault plans",
			"interleavings are explored at yield points only (every simulator-owned seam plus six in-framework hook sites; in the instrumented phases also before every statement and after every nested call of flamego's sources); code between two yields runs atomically",
			"virtual time: one scheduler step is 1-4 ticks, sleeping tasks make the clock jump, one tick stands for 0.1-100 ms (drawn per run); virtual_ticks is the sum over all runs",
			"Go map iteration order inside flamego is not seedable; workloads avoid the shapes where it is observable",
			"the race detector sees real synchronisation inside reflect/regexp/log (sync.Pool, mutexes) and may miss a race in a given schedule because of it",
		},
	}
	b, _ := json.MarshalIndent(ev, "", " ")
	os.WriteFile(filepath.Join(verifDir, "evidence", id+".json"), b, 0o644)
}
