#!/bin/sh
# usage: regress_all.sh [budget scale] [resume]   — runs every seeded change and every own sensitivity
# mutant against the quick check of its property and writes seeded/REGRESSION.md.
SCALE=${1:-0.5}
cd /verif || exit 2
OUT=seeded/REGRESSION.md
export VERIF_RACE_SHRINK_BUDGET=8s   # verdicts only: no need for minimal race replays here
if [ "$2" = resume ] && [ -f $OUT ]; then RESUME=1; else RESUME=0; fi
[ $RESUME = 1 ] || echo "# Regression of all deliberately broken versions (quick tier, budget scale $SCALE, $(date -u +%Y-%m-%dT%H:%MZ))" > $OUT
[ $RESUME = 1 ] || { echo >> $OUT; echo "| change | property | exit | rules / races reported |" >> $OUT; echo "|---|---|---|---|" >> $OUT; }
for d in seeded/c*/; do
  id=$(basename $d)
  grep -q "^| $id |" $OUT && continue
  prop=$(python3 -c "import json;print(json.load(open('$d/meta.json'))['property'])")
  r=$(timeout 2400 ./selftest/seeded_run.sh $prop /verif/$d $SCALE | tail -1 | cut -c1-200)
  echo "| $id | $prop | $(echo "$r" | sed 's/exit=\([0-9]*\) .*/\1/') | $(echo "$r" | sed 's/exit=[0-9]* //') |" >> $OUT
done
for p in selftest/mutants/*.diff; do
  n=$(basename $p .diff)
  grep -q "^| $n (own) |" $OUT && continue
  prop=$(echo $n | cut -c1-3 | tr a-z A-Z)
  r=$(timeout 2400 ./selftest/run_mutants.sh $prop $n $SCALE | tail -1 | cut -c1-220)
  echo "| $n (own) | $prop | $(echo "$r" | sed 's/.*exit=\([0-9]*\) .*/\1/') | $(echo "$r" | sed 's/.*exit=[0-9]* //') |" >> $OUT
done
echo done
