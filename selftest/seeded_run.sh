#!/bin/sh
# usage: seeded_run.sh <property id> <dir with patch.diff> [budget scale] [tier]
# Applies a seeded change to /repo, runs the property's check, and undoes it straight afterwards.
ID=$1; M=$2; SCALE=${3:-1}; TIER=${4:-quick}
cd /verif || exit 2
if [ -n "$(git -C /repo status --porcelain)" ]; then echo "/repo is dirty; refusing" >&2; exit 2; fi
SAVE=$(mktemp -d /verif/.cache/evsave.XXXXXX); cp -a evidence/. "$SAVE"/ 2>/dev/null
git -C /repo apply "$M/patch.diff" || { echo "apply failed"; exit 2; }
VERIF_BUDGET_SCALE=$SCALE ./check.sh "$ID" $TIER > /tmp/seeded-run.log 2>&1; code=$?
git -C /repo checkout -- . ; git -C /repo clean -fdq
rules=$(grep -a -E "^violation |^data race in" /tmp/seeded-run.log | sed 's/^violation //' | cut -c1-120 | tr '\n' ';')
cp -a "$SAVE"/. evidence/ 2>/dev/null; rm -rf "$SAVE"
rm -f /verif/replays/*.json
echo "exit=$code $rules"
