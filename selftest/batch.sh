#!/bin/sh
# usage: batch.sh <engine> <budget> <seed>...   — parallel single-worker batches on the current /verif/.bin/sim, concise report
E=$1; B=$2; shift 2
rm -rf /tmp/rp; mkdir -p /tmp/rp
for sd in "$@"; do
  ( GOMAXPROCS=2 ${BIN:-/verif/.bin/sim} batch -engine $E -seed $sd -n 100000000 -budget $B -replays /tmp/rp -maxviol 8 -known /verif/known_findings.json 2>/tmp/rp/err-$sd.txt | python3 -c "
import json,sys
t=sys.stdin.read()
try: d=json.loads(t)
except Exception as ex:
    print('seed $sd BAD OUTPUT', t[:1500], open('/tmp/rp/err-$sd.txt').read()[:3000]); sys.exit()
for v in d['violations'] or []:
    print(v['class'], v['replay']); print(v["violation"]["detail"][:400])
print('seed $sd runs', d['runs'], 'evals', d['evaluations'], 'known', sum((d.get('known') or {}).values()))" > /tmp/rp/out-$sd.txt ) &
done 2>/dev/null
wait
cat /tmp/rp/out-*.txt
