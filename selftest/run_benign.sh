#!/bin/sh
# usage: run_benign.sh [budget scale] [file prefix]
# Silence test: applies each property-PRESERVING change in selftest/benign/ to /repo, runs all five
# quick checks, undoes it. Every check must exit 0 and print no VIOLATION line: these changes alter
# observable behaviour (headers, messages, code structure, a correct cache) without breaking a property.
SCALE=${1:-0.5}
cd /verif || exit 2
if [ -n "$(git -C /repo status --porcelain)" ]; then echo "/repo is dirty; refusing" >&2; exit 2; fi
SAVE=$(mktemp -d /verif/.cache/evsave.XXXXXX); cp -a evidence/. "$SAVE"/ 2>/dev/null
bad=0
for d in selftest/benign/${2:-}*.diff; do
  git -C /repo apply "/verif/$d" || { echo "apply failed: $d"; bad=1; continue; }
  for id in C03 C05 C13 C15 C16; do
    VERIF_BUDGET_SCALE=$SCALE ./check.sh $id quick > /tmp/benign-run.log 2>&1; code=$?
    v=$(grep -a -c "^VIOLATION" /tmp/benign-run.log)
    echo "$(basename $d) $id exit=$code violations=$v $(grep -a -E '^violation |^data race in|^NOTE' /tmp/benign-run.log | cut -c1-160 | tr '\n' ';')"
    if [ $code -ne 0 ] || [ "$v" != "0" ]; then bad=1; cp /tmp/benign-run.log /tmp/benign-fail-$(basename $d .diff)-$id.log; mkdir -p /tmp/benign-replays; cp /verif/replays/*.json /tmp/benign-replays/ 2>/dev/null; fi
    rm -f /verif/replays/*.json
  done
  git -C /repo checkout -- . ; git -C /repo clean -fdq
done
cp -a "$SAVE"/. evidence/ 2>/dev/null; rm -rf "$SAVE"
echo "benign-silence: $([ $bad -eq 0 ] && echo ok || echo FAILED)"
exit $bad
