#!/bin/sh
# usage: run_mutants.sh <property id> <patch-prefix> [budget scale]
# Sensitivity self-test: applies each selftest/mutants/<prefix>*.diff to /repo, runs the
# property's quick check, reverts, and prints one line per mutant. Never leaves /repo dirty.
ID=$1; PFX=$2; SCALE=${3:-0.5}
cd /verif || exit 2
if [ -n "$(git -C /repo status --porcelain)" ]; then echo "/repo is dirty; refusing" >&2; exit 2; fi
SAVE=$(mktemp -d /verif/.cache/evsave.XXXXXX); cp -a evidence/. "$SAVE"/ 2>/dev/null
for p in selftest/mutants/${PFX}*.diff; do
  [ -f "$p" ] || continue
  n=$(basename "$p" .diff)
  if ! git -C /repo apply "/verif/$p" 2>/tmp/apply.err; then echo "$n: APPLY-FAILED $(head -1 /tmp/apply.err)"; continue; fi
  VERIF_BUDGET_SCALE=$SCALE ./check.sh "$ID" quick > "/tmp/mut-$n.log" 2>&1; code=$?
  rules=$(grep -a -E "^violation |^data race in" "/tmp/mut-$n.log" | sed 's/^violation //' | cut -c1-110 | tr '\n' ';')
  git -C /repo checkout -- . ; git -C /repo clean -fdq
  rm -f /verif/replays/*.json
  echo "$n: exit=$code $rules"
done
cp -a "$SAVE"/. evidence/ 2>/dev/null; rm -rf "$SAVE"
