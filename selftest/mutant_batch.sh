#!/bin/sh
# usage: mutant_batch.sh <patch.diff (absolute)> <engine> <budget> <plain|auto|race> <seed>...
# Builds the workers from /repo with the patch applied (then reverts /repo) and runs single-worker batches.
P=$1; E=$2; B=$3; K=$4; shift 4
cd /verif || exit 2
[ -n "$(git -C /repo status --porcelain)" ] && { echo "/repo dirty" >&2; exit 2; }
git -C /repo apply "$P" || exit 2
./check.sh setup >/dev/null 2>&1
git -C /repo checkout -- . ; git -C /repo clean -fdq
case $K in
 auto) BIN=/verif/.bin/sim-auto SIM_AUTO=1 ./selftest/batch.sh $E $B "$@" ;;
 race) BIN=/verif/.bin/sim-race ./selftest/batch.sh $E $B "$@" ;;
 *) ./selftest/batch.sh $E $B "$@" ;;
esac 2>/dev/null | grep -v "^\[" | cut -c1-500
echo "(binaries in /verif/.bin are built from the MUTANT: rebuild with ./check.sh setup)"
