#!/bin/sh
# usage: seeded_verify.sh <worktree> <mutant dir (patch.diff, demo_test.go)> <demo test regex> [-race]
# Confirms, in a scratch worktree of /repo, that a seeded change compiles, leaves the existing
# suite as it was (358 stable passes), fails its demonstration, and that the demonstration passes
# without it. Leaves the worktree clean.
WT=$1; M=$2; RE=$3; RACE=$4
export GOFLAGS=-mod=mod GOPROXY=off GOSUMDB=off GOTOOLCHAIN=local
cd "$WT" || exit 2
git checkout -q -- . ; git clean -fdq -e mutants
git apply "$M/patch.diff" || { echo "RESULT apply-failed"; exit 1; }
go build ./... && go build -tags verif ./... || { echo "RESULT build-failed"; git checkout -q -- .; exit 1; }
go test -json -vet=off -count=1 -timeout 10m . ./inject ./internal/... > /tmp/sv.json 2>/dev/null
SUITE=$(python3 - <<'PY'
import json
base=json.load(open('/root/.vp/BASELINE.json'))
res={}
for l in open('/tmp/sv.json'):
    try: d=json.loads(l)
    except: continue
    if d.get('Test') and d.get('Action') in ('pass','fail'):
        res[d['Package']+'::'+d['Test']]=d['Action']
sp=set(base['stable_pass'])
bad=[k for k in sp if res.get(k)!='pass']
print('suite-ok' if not bad else 'suite-CHANGED:'+','.join(bad[:4]))
PY
)
case "$SUITE" in suite-CHANGED*)
  # TestFlame_Run binds a fixed port and kills the test binary when another suite run holds it: retry once
  sleep 3; go test -json -vet=off -count=1 -timeout 10m . ./inject ./internal/... > /tmp/sv.json 2>/dev/null
  SUITE=$(python3 -c "
import json
base=json.load(open('/root/.vp/BASELINE.json'))
res={}
for l in open('/tmp/sv.json'):
    try: d=json.loads(l)
    except: continue
    if d.get('Test') and d.get('Action') in ('pass','fail'):
        res[d['Package']+'::'+d['Test']]=d['Action']
bad=[k for k in set(base['stable_pass']) if res.get(k)!='pass']
print('suite-ok' if not bad else 'suite-CHANGED:'+','.join(bad[:4]))
");;
esac
cp "$M/demo_test.go" ./zz_demo_test.go
go test -vet=off -count=1 $RACE -run "$RE" . > /tmp/sv-demo-with.log 2>&1; WITH=$?
git checkout -q -- . 
go test -vet=off -count=1 $RACE -run "$RE" . > /tmp/sv-demo-without.log 2>&1; WITHOUT=$?
rm -f zz_demo_test.go
git checkout -q -- . ; git clean -fdq -e mutants
echo "RESULT $SUITE demo-with-change-exit=$WITH demo-without-exit=$WITHOUT"
