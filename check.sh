#!/bin/sh
# usage: check.sh <property id> quick|thorough|replay [path]   |   check.sh setup
# Rebuilds the controller and (through it) the simulation worker against /repo's
# current working tree with the "verif" hooks on, then runs the check.
HERE=$(cd "$(dirname "$0")" && pwd)
export VERIF_DIR="$HERE"
cd "$HERE/sim" || exit 2
export GOFLAGS=-mod=mod GOPROXY=off GOSUMDB=off GOTOOLCHAIN=local
mkdir -p "$HERE/.bin" "$HERE/.cache" "$HERE/replays" "$HERE/evidence"
if [ "$1" = "setup" ]; then
  go build -o "$HERE/.bin/verifctl" ./cmd/verifctl || exit 2
  "$HERE/.bin/verifctl" prebuild || exit 2
  echo "setup ok"
  exit 0
fi
go build -o "$HERE/.bin/verifctl" ./cmd/verifctl || { echo "controller build failed" >&2; exit 2; }
exec "$HERE/.bin/verifctl" "$@"
